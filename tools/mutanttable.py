#!/usr/bin/env python3
"""Renders mutants/results.json into DESIGN.md section 12.6."""
import json
import os
import re

HERE = os.path.dirname(os.path.dirname(os.path.abspath(__file__)))
res = json.load(open(os.path.join(HERE, "mutants", "results.json")))
rows = ["| mutant | file | status | verdicts |", "|---|---|---|---|"]
n_surv = n_caught = 0
for mid, r in res.items():
    st = r.get("status", "?")
    det = []
    for c, v in sorted(r.get("checks", {}).items()):
        det.append("%s: %s" % (c, {0: "exit 0", 1: "VIOLATION", 2: "inconclusive"}.get(v["exit"], v["exit"])))
    if st.startswith("survives"):
        n_surv += 1
        if any(v["exit"] == 1 for v in r.get("checks", {}).values()):
            n_caught += 1
    rows.append("| %s | %s | %s | %s |" % (mid, r.get("file", ""), st[:80].replace("|", "/"), "; ".join(det)))
p = os.path.join(HERE, "DESIGN.md")
s = open(p).read()
block = "<!-- MUTANTS BEGIN -->\n%d mutants survive the existing tests; %d of them are reported as VIOLATION by at least one of the checks run against them.\n\n%s\n<!-- MUTANTS END -->" % (n_surv, n_caught, "\n".join(rows))
if "<!-- MUTANTS BEGIN -->" in s:
    s = re.sub(r"<!-- MUTANTS BEGIN -->.*<!-- MUTANTS END -->", block, s, flags=re.S)
else:
    s += "\n### 12.6 Own mutation sweep (tools/mutants.py; complements the independent seeds)\n\nHand-written one-line changes; a mutant counts only if the workspace builds in three configurations and the existing tests show no new failure.\n\n" + block + "\n"
open(p, "w").write(s)
print(n_surv, n_caught)
