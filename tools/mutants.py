#!/usr/bin/env python3
"""Own mutation sweep (complements the sub-agent seeds): small hand-written source changes; a mutant is kept only if
the workspace still builds (default, std+doc, std+doc+fpdec) and the existing test suite shows no new failure.
Each kept mutant is run against the listed checks in a scratch worktree (VERIF_REPO).  Results: mutants/results.json."""
import json
import os
import re
import shutil
import subprocess
import sys
import time

VERIF = os.path.dirname(os.path.dirname(os.path.abspath(__file__)))
REPO = "/repo"
ENV = dict(os.environ, CARGO_NET_OFFLINE="true", CARGO_TERM_COLOR="never")

# (id, file, old, new, checks)
M = [
    ("ratio_inverted", "src/lib.rs", "self.scale() / other.scale()", "other.scale() / self.scale()", ["C01"]),
    ("add_no_conversion", "src/lib.rs", "Self::new(self.amount() + rhs.equiv_amount(self.unit()), self.unit())", "Self::new(self.amount() + rhs.equiv_amount(rhs.unit()), self.unit())", ["C03"]),
    ("sub_result_in_rhs_unit", "src/lib.rs", "Self::new(self.amount() - rhs.equiv_amount(self.unit()), self.unit())", "Self::new(self.equiv_amount(rhs.unit()) - rhs.amount(), rhs.unit())", ["C03"]),
    ("div_swapped_conversion", "src/lib.rs", "self.amount() / rhs.equiv_amount(self.unit())", "self.equiv_amount(rhs.unit()) / rhs.amount() * AMNT_ONE", ["C03"]),
    ("fit_first_not_excluded", "src/lib.rs", "u.scale() > first.scale() && u.scale() <= amount", "u.scale() >= first.scale() && u.scale() <= amount", ["C05"]),
    ("fit_takes_all", "src/lib.rs", ".filter(|u| take_all || u.si_prefix().is_some());", ".filter(|u| take_all || u.si_prefix().is_some() || u.scale() > AMNT_ONE);", ["C05"]),
    ("fit_amount_by_first", "src/lib.rs", "Some(unit) => Self::new(amount / unit.scale(), unit),", "Some(unit) => Self::new(amount / first.scale(), unit),", ["C04", "C05"]),
    ("eq_only_same_unit_shortcut", "src/lib.rs", "            self.amount() * self.unit().scale()\n                == other.amount() * other.unit().scale()", "            self.amount() * self.unit().scale()\n                == other.amount() * self.unit().scale()", ["C02"]),
    ("pcmp_swapped", "src/lib.rs", "                &(self.amount() * self.unit().scale()),\n                &(other.amount() * other.unit().scale()),", "                &(other.amount() * other.unit().scale()),\n                &(self.amount() * self.unit().scale()),", ["C02"]),
    ("unit_from_scale_last", "src/lib.rs", "        Self::iter_units().find(|&unit| unit.scale() == amnt)", "        Self::iter_units().filter(|&unit| unit.scale() == amnt).last()", ["C05", "C09"]),
    ("from_symbol_case_insensitive", "src/lib.rs", "        Self::iter().find(|&unit| unit.symbol() == symbol)", "        Self::iter().find(|&unit| unit.symbol().eq_ignore_ascii_case(symbol))", ["C09"]),
    ("as_qty_zero", "src/lib.rs", "Self::QuantityType::new(AMNT_ONE, *self)", "Self::QuantityType::new(AMNT_ONE * AMNT_ONE + AMNT_ZERO * AMNT_ONE, *self)", ["C09"]),
    ("noref_eq_ignores_unit", "src/lib.rs", "self.unit() == other.unit() && self.amount() == other.amount()", "self.amount() == other.amount()", ["C10"]),
    ("noref_pcmp_ignores_unit", "src/lib.rs", "        if self.unit() == other.unit() {\n            PartialOrd::partial_cmp(&self.amount(), &other.amount())\n        } else {\n            None\n        }", "        PartialOrd::partial_cmp(&self.amount(), &other.amount())", ["C10"]),
    ("noref_div_no_guard", "src/lib.rs", "        if self.unit() == rhs.unit() {\n            return self.amount() / rhs.amount();\n        }", "        if self.unit() == rhs.unit() || rhs.amount() == AMNT_ONE {\n            return self.amount() / rhs.amount();\n        }", ["C10"]),
    ("amount_one_scale", "src/lib.rs", "    fn scale(&self) -> AmountT {\n        AMNT_ONE\n    }", "    fn scale(&self) -> AmountT {\n        AMNT_ONE + AMNT_ONE\n    }", ["C08", "C04"]),
    ("rate_recip_keeps_units", "src/rate.rs", "            self.per_unit_multiple(),\n            self.per_unit(),\n            self.term_amount(),\n            self.term_unit(),", "            self.term_amount(),\n            self.per_unit(),\n            self.per_unit_multiple(),\n            self.term_unit(),", ["C13"]),
    ("rate_mul_term_divided", "src/rate.rs", "Self::Output::new(amnt * self.term_amount(), self.term_unit())", "Self::Output::new(amnt / self.term_amount(), self.term_unit())", ["C13"]),
    ("rate_from_qty_swapped", "src/rate.rs", "            term_amount: term.amount(),\n            term_unit: term.unit(),\n            per_unit_multiple: per.amount(),", "            term_amount: per.amount(),\n            term_unit: term.unit(),\n            per_unit_multiple: term.amount(),", ["C13"]),
    ("table_matches_source_only", "src/converter.rs", "(*from == (*qty).unit() && *to == to_unit)", "(*from == (*qty).unit())", ["C14"]),
    ("table_same_unit_not_shortcut", "src/converter.rs", "        if (*qty).unit() == to_unit {\n            return Some(*qty);\n        }", "", ["C14"]),
    ("temp_offset_typo", "src/temperature.rs", "Amnt!(-459.67)", "Amnt!(-459.76)", ["C14"]),
    ("temp_factor_truncated", "src/temperature.rs", "                Amnt!(0.555555555555555556),\n                Amnt!(255.372222222222222222),", "                Amnt!(0.55555555555555),\n                Amnt!(255.372222222222222222),", ["C14"]),
    ("temp_pair_dropped", "src/temperature.rs", "            (DEGREE_CELSIUS, DEGREE_FAHRENHEIT, Amnt!(1.8), Amnt!(32)),", "            (DEGREE_CELSIUS, DEGREE_CELSIUS, Amnt!(1.8), Amnt!(32)),", ["C14"]),
    ("si_zepto_zetta", "src/si_prefixes.rs", '            "z" => Some(Self::ZEPTO),', '            "z" => Some(Self::ZETTA),', ["C16"]),
    ("si_name_typo", "src/si_prefixes.rs", 'Self::FEMTO => "Femto",', 'Self::FEMTO => "Fempto",', ["C16"]),
    ("si_exp_15", "src/si_prefixes.rs", "            15 => Some(Self::PETA),", "            16 => Some(Self::PETA),", ["C16"]),
    ("mass_ounce_digit", "src/mass.rs", "0.028349523125", "0.028349523152", ["C07"]),
    ("datavolume_kibibit", "src/datavolume.rs", '#[unit(Kibibit, "Kib", 128, ', '#[unit(Kibibit, "Kib", 125, ', ["C07", "C09"]),
    ("area_prefix", "src/area.rs", '#[unit(Square_Decimeter, "dm²", CENTI, 0.01, "dm²")]', '#[unit(Square_Decimeter, "dm²", DECI, 0.01, "dm²")]', ["C07", "C05"]),
    ("energy_symbol", "src/energy.rs", '#[unit(Watt_Second, "Ws", NONE, 1, "W·s")]', '#[unit(Watt_Second, "WS", NONE, 1, "W·s")]', ["C07"]),
    ("astro_parsec", "astronimical_quantities/src/lib.rs", "206264.80624709636", "206264.80624709363", ["C07"]),
    ("power_tw_scale", "src/power.rs", "1000000000000.,", "100000000000.,", ["C07"]),
    ("macro_const_snake", "qty-macros/src/quantity_attr_helper.rs", "unit_ident.to_string().to_case(Case::UpperSnake).as_str(),", "unit_ident.to_string().to_uppercase().as_str(),", ["C09", "C11"]),
    ("macro_name_keeps_underscore", "qty-macros/src/quantity_attr_helper.rs", "unit_ident.to_string().replace('_', \" \").as_str(),", "unit_ident.to_string().as_str(),", ["C07", "C11"]),
    ("macro_div_scale_product", "qty-macros/src/quantity_attr_helper.rs", "                let scale =\n                    self.unit().scale() / rhs.unit().scale();", "                let scale =\n                    rhs.unit().scale() / self.unit().scale();", ["C04"]),
    ("macro_mul_fit_without_scale", "qty-macros/src/quantity_attr_helper.rs", "                        <Self::Output as HasRefUnit>::_fit(\n                            self.amount() * rhs.amount() * scale\n                        )\n                }\n            }\n        }\n        impl<'a> Mul<#rhs_qty_ident> for &'a #lhs_qty_ident", "                        <Self::Output as HasRefUnit>::_fit(\n                            self.amount() * rhs.amount()\n                        )\n                }\n            }\n        }\n        impl<'a> Mul<#rhs_qty_ident> for &'a #lhs_qty_ident", ["C04"]),
    ("macro_scalar_mul_unit", "qty-macros/src/quantity_attr_helper.rs", "                Self::Output::new(self * rhs.amount(), rhs.unit())", "                Self::Output::new(rhs.amount() * self * AMNT_ONE, rhs.unit())", ["C08"]),
    ("macro_unit_mul_amount", "qty-macros/src/quantity_attr_helper.rs", "                Self::Output::new(rhs, self)\n", "                Self::Output::new(rhs + AMNT_ZERO, self)\n", ["C08"]),
    ("macro_ref_div_form", "qty-macros/src/quantity_attr_helper.rs", "            fn div(self, rhs: &#rhs_qty_ident) -> Self::Output {\n                Div::div(*self, *rhs)\n            }", "            fn div(self, rhs: &#rhs_qty_ident) -> Self::Output {\n                Div::div(*self, *rhs * AMNT_ONE)\n            }", ["C04"]),
    ("macro_sort_desc_ties", "qty-macros/src/quantity_attr_helper.rs", "            x.partial_cmp(&y).unwrap()\n        });", "            x.partial_cmp(&y).unwrap().then(b.unit_ident.cmp(&a.unit_ident))\n        });", ["C09", "C11"]),
    ("macro_rate_div_per", "qty-macros/src/quantity_attr_helper.rs", "                    amnt * rhs.per_unit_multiple(),\n                    rhs.per_unit()", "                    amnt / rhs.per_unit_multiple(),\n                    rhs.per_unit()", ["C13"]),
    ("enumiter_skip_last", "qty-macros/src/lib.rs", "            pub fn iter() -> core::slice::Iter<'static, Self> {\n                Self::VARIANTS.iter()", "            pub fn iter() -> core::slice::Iter<'static, Self> {\n                Self::VARIANTS[..Self::VARIANTS.len() - 1].iter()", ["C16"]),
]


def sh(cmd, cwd=None, timeout=3600, env=None):
    p = subprocess.run(cmd, cwd=cwd, shell=True, stdout=subprocess.PIPE, stderr=subprocess.STDOUT, text=True, env=env or ENV, timeout=timeout)
    return p.returncode, p.stdout


def tests(wt):
    rc, out = sh("cargo test --workspace --no-fail-fast --offline", cwd=wt)
    fails = sorted(set(re.findall(r"^test (\S+) \.\.\. FAILED", out, re.M)))
    rcb, _ = sh("cargo build --workspace --offline", cwd=wt)
    return fails, rcb != 0


def main():
    only = sys.argv[1:]
    outdir = os.path.join(VERIF, "mutants")
    os.makedirs(outdir, exist_ok=True)
    resf = os.path.join(outdir, "results.json")
    results = json.load(open(resf)) if os.path.exists(resf) else {}
    wt = "/tmp/mut_wt"
    sh("git -C %s worktree remove --force %s" % (REPO, wt))
    sh("git -C %s worktree add --detach %s HEAD" % (REPO, wt))
    if os.path.exists(os.path.join(REPO, "Cargo.lock")):
        shutil.copy(os.path.join(REPO, "Cargo.lock"), os.path.join(wt, "Cargo.lock"))
    base_fails, _ = tests(wt)
    try:
        for mid, f, old, new, checks in M:
            if only and mid not in only:
                continue
            if mid in results and results[mid].get("done"):
                continue
            path = os.path.join(wt, f)
            src = open(path).read()
            if src.count(old) < 1:
                results[mid] = {"status": "pattern not found", "done": True}
                continue
            open(path, "w").write(src.replace(old, new, 1))
            r = {"file": f, "old": old, "new": new, "checks": {}}
            try:
                fails, berr = tests(wt)
                b1, o1 = sh("cargo build --offline --no-default-features --features std,doc", cwd=wt)
                b2, o2 = sh("cargo build --offline --no-default-features --features std,doc,fpdec", cwd=wt)
                if berr or b1 != 0 or b2 != 0:
                    r["status"] = "does not compile"
                elif set(fails) - set(base_fails):
                    r["status"] = "killed by the existing tests: %s" % sorted(set(fails) - set(base_fails))[:3]
                else:
                    r["status"] = "survives the existing tests"
                    env = dict(ENV, VERIF_REPO=wt, VERIF_EVIDENCE_DIR="/tmp/mut_ev", VERIF_REPLAY_DIR="/tmp/mut_ev/replays")
                    for c in checks:
                        t0 = time.time()
                        rc, out = sh("./check run %s --tier quick" % c, cwd=VERIF, timeout=7200, env=env)
                        keys = re.findall(r"^violation key=([^\n]{0,160})", out, re.M)
                        r["checks"][c] = {"exit": rc, "first": keys[:1], "inconclusive": re.findall(r"^INCONCLUSIVE: ([^\n]{0,160})", out, re.M)[:1], "wall_s": round(time.time() - t0)}
                        print(mid, c, "exit", rc, (keys[:1] or [""])[0][:120], flush=True)
                r["done"] = True
            finally:
                sh("git checkout -- .", cwd=wt)
            results[mid] = r
            print(mid, r["status"], flush=True)
            json.dump(results, open(resf, "w"), indent=1)
    finally:
        sh("git -C %s worktree remove --force %s" % (REPO, wt))
        shutil.rmtree("/tmp/mut_ev", ignore_errors=True)


if __name__ == "__main__":
    main()
