#!/usr/bin/env python3
"""Regenerates /verif/MANIFEST.json from the table below (kept valid at all times)."""
import json
import os

HERE = os.path.dirname(os.path.dirname(os.path.abspath(__file__)))

E1 = "Kani 0.68 / CBMC 6.11 bounded model checking of the compiled crate (generated harness crate, path dependency on /repo)"
E2 = "symbolic execution of rustc MIR (own executor, regenerated from /repo each run) + z3 SMT queries per (type, operation, unit tuple, path); SAT models replayed natively"

CHECKS = {
    "C01": dict(engine="mirsmt+kani", technique="MIR symbolic execution + SMT (z3: QF_LRA reals-with-rounding, QF_UF exactness); native replay of models",
                text="Bounded model checking: for every quantity type with reference unit found in the MIR (13 catalogue types + AmountT in f64 and decimal, the 4 astronomical types) and every ordered unit pair, "
                     "the solver shows for ALL amounts in the stated box that convert() carries the requested unit, its amount is within the rounding tolerance "
                     "of a*sf/st, equiv_amount is the same term, and same-unit conversion returns the input term (E2); Kani additionally shows the same-unit identity bit-for-bit for EVERY f64 pattern "
                     "and symbolic units (E1). Bounded (boxes, listed types), hence model_checking not proof.",
                note="Trusted: rustc MIR dump, the executor and its iterator/Option summaries, the IEEE/fpdec rounding contracts, z3. Outside the bound: NaN/inf/subnormal "
                     "amounts, |decimal| > 1e17, user-defined types (astronomical/synthetic types only in thorough tier).", ref="7 C01"),
    "C02": dict(engine="mirsmt", technique="MIR symbolic execution + SMT (z3: QF_LRA order obligations, QF_UF symmetry/exactness, QF_FP bit-precise re-decision of candidates); native replay",
                text="Bounded model checking: for every type with reference unit and every ordered unit pair, for ALL amount pairs in the box the solver shows that partial_cmp and == "
                     "agree with the exact order of the magnitudes whenever they differ by more than the stated tolerance, that equal units reduce to the amount type's own comparison, and that "
                     "==, <, >, Equal are independent of operand order for all non-NaN amounts (uninterpreted amount arithmetic with a total order; a SAT answer is re-decided bit-precisely and replayed natively).",
                note="Trusted: as C01. <, <=, >, >=, != are taken as std's documented derivations from partial_cmp/eq. Symmetry is shown for any amount arithmetic whose ==/< are symmetric/antisymmetric and total on the compared values (true for non-NaN f64 and for decimals).",
                ref="7 C02"),
    "C03": dict(engine="mirsmt+kani", technique="MIR symbolic execution + SMT (z3: QF_LRA for +/-, QF_NRA for the ratio, QF_UF exactness); native replay",
                text="Bounded model checking: for every type with reference unit (catalogue in both back-ends, astronomical crate) and ordered unit pair the solver shows for ALL amount pairs in the box that a+b and a-b carry the left unit and are within "
                     "tolerance of the exact sum/difference of magnitudes, that a/b is within tolerance of the ratio of magnitudes, and that equal units give exactly the amount type's own +, -, / (E2); "
                     "Kani shows the left-unit rule for EVERY f64 bit pattern with symbolic units (E1).",
                note="Trusted: as C01. Ratio box: 2^-400..2^400 (f64); decimal divisor at least 2e-18(1+|b|) in the dividend's unit.", ref="7 C03"),
    "C04": dict(engine="mirsmt", technique="MIR symbolic execution + SMT (z3: QF_NRA value obligations per path, QF_UF for the borrowed-operand forms); native replay",
                text="Bounded model checking: for each of the 34 derived operator instances found in the MIR (compared with the declared derivations), every operand unit pair and every path "
                     "(natural unit or each unit _fit can choose) the solver shows for ALL amount pairs in the box that the result magnitude equals the product/quotient of the operand magnitudes "
                     "within tolerance, and that the three borrowed-operand forms return the same unit and term as the owned form.",
                note="Trusted: as C01. Borrowed forms on a subset of unit rows in quick, all rows in thorough. The multiply-then-divide consequence follows from two tolerance statements.", ref="7 C04"),
    "C05": dict(engine="mirsmt+kani", technique="MIR symbolic execution + SMT (z3) for the composition on both back-ends; Kani/CBMC (SAT, bit-precise f64) for the _fit selection rule",
                text="Bounded model checking. E2: for every operator instance and operand unit pair, if the scale product/quotient computed in the amount type is a unit's scale the result is on a single path, "
                     "carries a unit of that scale (the reference unit for reference operands) and its amount is exactly the term a o b; otherwise every path's unit is eligible and is a correct choice "
                     "for some value within rounding of the exact magnitude (all amounts in the box). E1: for every result type, for EVERY f64 bit pattern x, _fit(x) picks an eligible unit that is the largest "
                     "with scale <= x or the smallest eligible one, boundaries decided exactly.",
                note="Trusted: as C01 plus Kani/CBMC. The exact boundary rule is decided on f64 only (Kani); for decimals the rule is decided up to rounding of the magnitude by E2.", ref="7 C05"),
    "C07": dict(engine="kani", technique="Kani/CBMC bounded model checking over a symbolic unit index per quantity type; native registry dump as replay",
                text="Bounded model checking of the generated name/symbol/si_prefix/scale functions of all 14 catalogue quantities (f64 and decimal) and the 4 astronomical quantities against an "
                     "independently written definition table (exact rational chains): every unit by symbolic index; scales bit-exact when the definition is a terminating decimal, 2 ulp / 1e-18 otherwise; "
                     "reference units have scale one; SI-prefix consistency shown on the table's rationals. Finite domain, decided completely by the solver.",
                note="Trusted: Kani/CBMC, spec/catalogue.py (astronomical crate: the rationals stated in its own docs and IAU constants - weaker independence). One recorded known finding (Sideral_Day).", ref="7 C07"),
    "C08": dict(engine="mirsmt+kani", technique="Kani/CBMC (SAT, all f64 bit patterns) for storage and unit preservation; MIR symbolic execution + z3 QF_UF for exactness of the scalar operators",
                text="Bounded model checking. E1: for every unit (symbolic index) of the 14 catalogue types, a synthetic single-unit and a synthetic no-reference type and AmountT, and EVERY f64 bit pattern, "
                     "new / amount*unit / unit*amount store amount and unit unchanged and k*q, q*k, q/k keep the unit; ONE has an empty symbol and scale one. E2: for every unit of every type in the MIR of both "
                     "back-ends the amount of k*q, q*k, q/k is exactly the amount type's own product/quotient term.",
                note="Trusted: Kani/CBMC; MIR executor; decimal storage is decided only by E2 (uninterpreted amounts).", ref="7 C08"),
    "C09": dict(engine="kani+mirsmt", technique="Kani/CBMC bounded model checking over symbolic positions, indices, bounded strings and all f64 scale values",
                text="Bounded model checking of the registry of the 14 catalogue types (f64 and decimal), the 4 astronomical types and 6 synthetic macro-defined types (incl. a 24-unit type declared out of order with ties and a no-reference type whose name order differs from identifier order): "
                     "iteration yields exactly the declared units in the required order (symbolic position), every constant equals its variant, symbol lookups of every declared symbol return the first unit with it, lookups of EVERY UTF-8 string of <= 2 bytes are "
                     "Some(matching unit) or None-with-no-match (types with <= 8 units in quick, <= 13 in thorough), from_scale/unit_from_scale return the first unit with that scale for EVERY f64 (Kani) and for a symbolic amount in both back-ends (E2), exactly one reference unit with scale one, as_qty is one of itself.",
                note="Trusted: Kani/CBMC, the unit set of spec/catalogue.py; the order of equal-scale non-reference units is read from /repo's attribute lines. Strings longer than 2 bytes and decimal scale lookup are outside E1's claim.", ref="7 C09"),
    "C10": dict(engine="kani+mirsmt", technique="Kani/CBMC (must-panic harnesses: single failing check at the documented panic site, return unreachable) + MIR symbolic execution with z3 QF_UF",
                text="Bounded model checking on Temperature, a synthetic 3-unit no-reference type and a synthetic single-unit type, f64 (all bit patterns) and decimal (bounded coefficients): == iff same unit and amount, "
                     "partial_cmp None across units, + - / of different units fail exactly at the documented panic! and never return, same units keep the unit; E2 re-decides the panic condition from the MIR and shows same-unit results are exactly the amount type's own operations.",
                note="Trusted: Kani's modelling of panic! as a failing check at the macro site; decimal same-unit division is decided by E2 only (CBMC does not finish the 256-bit division).", ref="7 C10"),
    "C11": dict(engine="kani+mirsmt", technique="seeded corpus of synthetic definitions expanded by the real macro; per definition Kani/CBMC harness families and MIR symbolic execution + z3 obligations",
                text="Bounded in the program dimension and stated as such: K seeded well-formed definitions (quick 6, thorough 24; unit counts 1-9, int/float literal forms, ties, optional prefix/doc, "
                     "with/without reference unit, single-unit, each also with permuted attribute order, plus a derived product and quotient) are expanded by the real macro in both back-ends. Per definition the solver decides "
                     "for every unit / f64 bit pattern / amount in the box: names, symbols, prefixes, scales, iteration order, constants, lookups, reference unit, constructors, the declared operator set (Kani) and the C01/C03/C04/C05 "
                     "obligations on the corpus MIR (E2). The quantifier over programs is SAMPLED, not decided; the definitions are printed in evidence.",
                note="Trusted: the independent reading of declarations in engine/synth/gen_defs.py; Kani/CBMC; the MIR executor. Definitions outside the corpus are outside the claim.", ref="7 C11"),
    "C13": dict(engine="mirsmt+kani", technique="MIR symbolic execution + z3 QF_NRA (three symbolic amounts) and QF_UF; Kani/CBMC for component storage",
                text="Bounded model checking. E1: Rate::new / from_qty_vals / reciprocal store and swap the four components bit-identically for every f64 pattern and unit pair of four type combinations. "
                     "E2: for the listed (term, per) type pairs and EVERY unit triple the solver shows for all amounts in the box that rate*q, q*rate carry the term unit and q/rate the per unit with amounts within "
                     "tolerance of ta(v sv)/(pm sp) resp. pm(v sv)/(ta st); rate*q and q*rate, and q/rate and q*rate.reciprocal(), are the same terms.",
                note="Trusted: as C01. Type pairs: quick 4 catalogue pairs + 5 pairs with the synthetic single-unit / 4-unit fixture types, thorough 8 + 5 (listed in evidence bounds).", ref="7 C13"),
    "C14": dict(engine="kani+mirsmt", technique="Kani/CBMC over all tables with <= 3 (4) rows with symbolic row units; MIR symbolic execution + z3 (QF_UF affine map, QF_LRA temperature formulas and round trips)",
                text="Bounded model checking. E1: for every ConversionTable<Temperature,N>, N <= 3 (thorough 4), with all 2N row units, source and target unit symbolic: unchanged for the same unit, else the first entry "
                     "for (from,to), else None. E2: the result amount is exactly fadd(fmul(a,f),o); the predefined temperature table covers all 9 ordered pairs, each within tolerance of the physical formula for all amounts in the box, and round trips return the original.",
                note="Trusted: Kani/CBMC; MIR executor with the find_map/then summaries; the physical formulas in spec/catalogue.py.", ref="7 C14"),
    "C18": dict(engine="kani+mirsmt", technique="Kani/CBMC panic-freedom on all f64 bit patterns with symbolic units; MIR symbolic execution + z3 QF_NRA overflow/zero-divisor side obligations for decimals, SAT models replayed natively",
                text="Bounded model checking. f64: for every operation of C01-C05, C08, C13, C14 (13 types x 13 like-quantity operations, 34 derived operators x 4 operand forms, rates, temperature table) with symbolic units and "
                     "UNCONSTRAINED f64 amounts no panic is reachable. decimal: at every Decimal operation on every path of convert/compare/+/-// and of the 34 derived operators, for every unit pair, the solver shows "
                     "'divisor != 0 and |exact| < 1e20' for ALL amounts satisfying the property's magnitude precondition; a SAT answer is replayed natively with 18-digit decimals.",
                note="Trusted: Kani/CBMC; fpdec's contract (panic only on zero divisor / unrepresentable result). Formatting operations are outside (C15 n/a). One recorded known finding (amount product before scale in derived operators).", ref="7 C18"),
    "C16": dict(engine="kani", technique="Kani/CBMC bounded model checking (SAT) over symbolic index / i8 / bounded strings",
                text="Bounded model checking of the compiled SIPrefix code against the SI-brochure table: every iterated prefix (symbolic index), "
                     "from_exp for all 256 i8 values, from_abbr for every UTF-8 string up to 3 bytes (8 in thorough), pairwise distinctness. "
                     "The finite parts are exhaustive by the solver; strings are bounded.",
                note="Trusted: Kani's MIR->GOTO translation, CBMC, the SAT solver, the hand-written SI table in spec/catalogue.py. Strings longer than the bound are outside the claim.",
                ref="7 C16"),
}

PENDING = {}

NOT_APPLICABLE = {
    "C06": "compile-time verdict of rustc's trait resolution over programs; there is no run-time code to execute symbolically (DESIGN section 8)",
    "C12": "compile-time diagnostics of the proc macro on ill-formed token streams; symbolic token streams through syn are out of reach (DESIGN section 8)",
    "C15": "text is produced by core::fmt (float digit generation, pad_integral, heap strings): CBMC symbolic execution did not finish in 15 min even with concrete amount (DESIGN section 8)",
    "C17": "serde_json to_value/from_value of one value: symbolic execution not finished in 15 min (maps, visitors, heap strings) (DESIGN section 8)",
    "C19": "property of the cargo feature lattice and rustc, not of executable code (DESIGN section 8)",
}


def main():
    checks = []
    for pid in sorted(CHECKS):
        c = CHECKS[pid]
        checks.append({
            "property_id": pid,
            "quick_cmd": "./check run %s --tier quick" % pid,
            "thorough_cmd": "./check run %s --tier thorough" % pid,
            "evidence_file": "evidence/%s.json" % pid,
            "replay_cmd_template": "./check replay {path}",
            "engine": c["engine"],
            "level_claimed": {"category": "model_checking", "text": c["text"], "design_ref": "DESIGN.md section " + c["ref"]},
            "level_note": c["note"],
            "technique": c["technique"],
        })
    na = [{"property_id": k, "reason": v} for k, v in sorted(NOT_APPLICABLE.items())]
    import re
    props = [json.loads(l)["id"] for l in open(os.path.join(HERE, "properties.jsonl"))]
    for p in props:
        if p not in CHECKS and p not in NOT_APPLICABLE:
            na.append({"property_id": p, "reason": PENDING.get(p, "check under construction in this round; not claimed yet")})
    na.sort(key=lambda x: x["property_id"])
    m = {
        "version": 1,
        "setup_cmd": "./check selftest",
        "hooks": {
            "guard": "mamrhein_quantities_rs_verif",
            "enable": "no source hooks are needed: every function exercised is public; checks build /repo as it is (path dependency / cargo rustc --manifest-path)",
            "baseline_off_cmd": "cd /repo && cargo test --workspace --no-fail-fast --offline",
            "source_commits": [],
            "add_only": True,
        },
        "engines": [
            {"name": "kani", "path": "engine/kani", "serves_properties": sorted(p for p, c in CHECKS.items() if "kani" in c["engine"]), "kind_free_text": E1},
            {"name": "mirsmt", "path": "engine/mirsmt", "serves_properties": sorted(p for p, c in CHECKS.items() if "mirsmt" in c["engine"]), "kind_free_text": E2},
        ],
        "checks": checks,
        "not_applicable": na,
        "notes": "Exit codes: 0 held, 1 VIOLATION (reproduced natively), 2 inconclusive (timeout/unknown/unsupported; never success). "
                 "Known findings: KNOWN_FINDINGS.txt. VERIF_SEED seeds solver and task order.",
    }
    with open(os.path.join(HERE, "MANIFEST.json"), "w") as f:
        json.dump(m, f, indent=1)
        f.write("\n")


if __name__ == "__main__":
    main()
