#!/usr/bin/env python3
"""Seeded-defect bookkeeping.

  tools/seed.py verify <Cxx> <variant>      confirm a sub-agent's change in a scratch worktree
                                            (compiles, existing tests unchanged, demo fails with / passes without)
                                            and store it as /verif/seeded/<Cxx>_<variant>/
  tools/seed.py eval <seed id> [Cxx ...]    apply the patch to /repo, run the given checks (default: its own
                                            property), record verdicts in meta.json, restore /repo
"""
import json
import os
import re
import shutil
import subprocess
import sys
import time

VERIF = os.path.dirname(os.path.dirname(os.path.abspath(__file__)))
REPO = "/repo"
OUT = "/tmp/seed_out"
ENV = dict(os.environ, CARGO_NET_OFFLINE="true", CARGO_TERM_COLOR="never")


def sh(cmd, cwd=None, timeout=3600):
    p = subprocess.run(cmd, cwd=cwd, shell=isinstance(cmd, str), stdout=subprocess.PIPE, stderr=subprocess.STDOUT, text=True, env=ENV, timeout=timeout)
    return p.returncode, p.stdout


def test_summary(out):
    fails = sorted(set(re.findall(r"^test (\S+) \.\.\. FAILED", out, re.M)))
    passed = sum(int(x) for x in re.findall(r"test result: \w+\. (\d+) passed", out))
    return passed, fails


def verify(pid, var):
    src = os.path.join(OUT, pid)
    meta = json.load(open(os.path.join(src, "meta.json")))
    v = [x for x in meta["variants"] if x["id"] == var][0]
    wt = "/tmp/sv_%s_%s" % (pid, var)
    sh("git -C %s worktree remove --force %s" % (REPO, wt))
    rc, out = sh("git -C %s worktree add --detach %s HEAD" % (REPO, wt))
    res = {"property": pid, "variant": var, "summary": v.get("summary"), "needs_to_manifest": v.get("needs_to_manifest"), "files": v.get("files")}
    try:
        demo_dest = v.get("demo_dest") or ("tests/seed_demo_%s.rs" % var)
        demo_cmd = v["demo_cmd"]
        demo_cmd = re.sub(r"--target-dir \S+", "", demo_cmd)
        demo_cmd = re.sub(r"cd \S+ &&", "", demo_cmd).strip()
        if "--offline" not in demo_cmd:
            demo_cmd = demo_cmd.replace("cargo test", "cargo test --offline").replace("cargo run", "cargo run --offline")
        # 1. baseline on clean tree
        rc0, out0 = sh("cargo test --workspace --no-fail-fast --offline", cwd=wt)
        base = test_summary(out0)
        # demo passes without the change
        os.makedirs(os.path.dirname(os.path.join(wt, demo_dest)), exist_ok=True)
        shutil.copy(os.path.join(src, "demo_%s.rs" % var), os.path.join(wt, demo_dest))
        cmds = [c.strip() for c in re.findall(r"cargo (?:test|run)(?: (?:--?[\w-]+(?:[= ](?!-)[\w,./-]+)?|[\w./-]+))*", demo_cmd)]
        cmds = [re.sub(r"\s+(and|also|with|on|in|for)$", "", c) for c in cmds]
        cmds = [c if "--offline" in c else c.replace("cargo test", "cargo test --offline", 1).replace("cargo run", "cargo run --offline", 1) for c in cmds] or [demo_cmd]
        clean = [sh(c, cwd=wt) for c in cmds]
        # 2. apply
        rc, out = sh("git apply %s" % os.path.join(src, "%s.diff" % var), cwd=wt)
        if rc != 0:
            res["error"] = "patch does not apply: " + out[-300:]
            return res
        os.remove(os.path.join(wt, demo_dest))
        rc1, out1 = sh("cargo test --workspace --no-fail-fast --offline", cwd=wt)
        mut = test_summary(out1)
        shutil.copy(os.path.join(src, "demo_%s.rs" % var), os.path.join(wt, demo_dest))
        b1, _ = sh("cargo build --offline --no-default-features --features std,doc", cwd=wt)
        b2, _ = sh("cargo build --offline --no-default-features --features std,doc,fpdec", cwd=wt)
        dirty = [sh(c, cwd=wt) for c in cmds]
        res.update({
            "baseline_tests": {"passed": base[0], "failed": base[1]},
            "mutated_tests": {"passed": mut[0], "failed": [f for f in mut[1] if "seed_demo" not in f]},
            "compiles_catalogue_f64": b1 == 0, "compiles_catalogue_fpdec": b2 == 0,
            "demo_cmds": cmds,
            "demo_clean_rc": [r for r, _ in clean], "demo_mutated_rc": [r for r, _ in dirty],
            "demo_dest": demo_dest,
        })
        demo_ok = all(r == 0 for r, _ in clean) and any(r != 0 for r, _ in dirty)
        # existing tests: same failures as baseline, ignoring the demo itself
        same = set(res["mutated_tests"]["failed"]) == set(f for f in base[1] if "seed_demo" not in f)
        res["confirmed"] = bool(demo_ok and same and b1 == 0 and b2 == 0)
        if not demo_ok:
            res["demo_log_clean"] = clean[0][1][-800:]
            res["demo_log_mutated"] = dirty[0][1][-800:]
    finally:
        sh("git -C %s worktree remove --force %s" % (REPO, wt))
    if res.get("confirmed"):
        d = os.path.join(VERIF, "seeded", "%s_%s" % (pid, var))
        os.makedirs(d, exist_ok=True)
        shutil.copy(os.path.join(src, "%s.diff" % var), os.path.join(d, "patch.diff"))
        shutil.copy(os.path.join(src, "demo_%s.rs" % var), os.path.join(d, "demo.rs"))
        res["what_i_ran"] = ["git worktree add (scratch)", "cargo test --workspace --no-fail-fast --offline (clean and mutated)",
                             "cargo build --no-default-features --features std,doc[,fpdec] (mutated)"] + cmds
        json.dump(res, open(os.path.join(d, "meta.json"), "w"), indent=1)
    return res


def evaluate(seed, checks):
    """runs the checks against a scratch worktree with the patch applied (VERIF_REPO), so /repo stays untouched
    and several evaluations can run side by side; `--in-repo` applies to /repo itself instead"""
    in_repo = "--in-repo" in checks
    checks = [c for c in checks if not c.startswith("--")]
    d = os.path.join(VERIF, "seeded", seed)
    meta = json.load(open(os.path.join(d, "meta.json")))
    checks = checks or [meta["property"]]
    if in_repo:
        rc, out = sh("git -C %s status --porcelain" % REPO)
        if out.strip():
            print("refusing: /repo has uncommitted changes")
            return 2
        wt = REPO
    else:
        wt = "/tmp/se_%s" % seed
        sh("git -C %s worktree remove --force %s" % (REPO, wt))
        sh("git -C %s worktree add --detach %s HEAD" % (REPO, wt))
        if os.path.exists(os.path.join(REPO, "Cargo.lock")):
            shutil.copy(os.path.join(REPO, "Cargo.lock"), os.path.join(wt, "Cargo.lock"))
    rc, out = sh("git -C %s apply %s" % (wt, os.path.join(d, "patch.diff")))
    if rc != 0:
        print("patch does not apply:", out)
        return 2
    results = meta.setdefault("detection", {})
    env = dict(ENV, VERIF_REPO=wt, VERIF_EVIDENCE_DIR="/tmp/se_ev_%s" % seed, VERIF_REPLAY_DIR="/tmp/se_ev_%s/replays" % seed)
    try:
        for c in checks:
            t0 = time.time()
            p = subprocess.run("./check run %s --tier quick" % c, cwd=VERIF, shell=True, stdout=subprocess.PIPE, stderr=subprocess.STDOUT, text=True, env=env, timeout=7200)
            rc, out = p.returncode, p.stdout
            viol = re.findall(r"^VIOLATION property=(\S+) replay=(\S+)", out, re.M)
            keys = re.findall(r"^violation key=([^\n]{0,200})", out, re.M)
            results[c] = {"exit": rc, "violations": len(viol), "first": keys[:3], "inconclusive": re.findall(r"^INCONCLUSIVE: ([^\n]{0,200})", out, re.M)[:3],
                          "wall_s": round(time.time() - t0, 1)}
            print(seed, c, "exit", rc, "violations", len(viol), (keys[:1] or re.findall(r"^INCONCLUSIVE: ([^\n]{0,160})", out, re.M)[:1] or [""])[0][:160], flush=True)
    finally:
        if in_repo:
            sh("git -C %s checkout -- ." % REPO)
        else:
            sh("git -C %s worktree remove --force %s" % (REPO, wt))
        shutil.rmtree("/tmp/se_ev_%s" % seed, ignore_errors=True)
    json.dump(meta, open(os.path.join(d, "meta.json"), "w"), indent=1)
    return 0


if __name__ == "__main__":
    if sys.argv[1] == "verify":
        r = verify(sys.argv[2], sys.argv[3])
        print(json.dumps({k: r[k] for k in r if k not in ("demo_log_clean", "demo_log_mutated")}, indent=1))
        if not r.get("confirmed"):
            print(r.get("demo_log_clean", "")[-600:])
            print(r.get("demo_log_mutated", "")[-600:])
    elif sys.argv[1] == "eval":
        sys.exit(evaluate(sys.argv[2], sys.argv[3:]))
