#!/usr/bin/env python3
"""Regenerates the seeded-change table of DESIGN.md section 12.5 from seeded/*/meta.json."""
import glob
import json
import os
import re

HERE = os.path.dirname(os.path.dirname(os.path.abspath(__file__)))
rows = ["| seed | property | change (needs ... to manifest) | verdicts of the checks run against it |", "|---|---|---|---|"]
for f in sorted(glob.glob(os.path.join(HERE, "seeded", "*", "meta.json"))):
    m = json.load(open(f))
    sid = os.path.basename(os.path.dirname(f))
    summ = re.sub(r"\s+", " ", (m.get("summary") or ""))[:230].replace("|", "/")
    need = re.sub(r"\s+", " ", (m.get("needs_to_manifest") or ""))[:170].replace("|", "/")
    det = []
    for c, r in sorted(m.get("detection", {}).items()):
        v = {0: "MISSED (exit 0)", 1: "VIOLATION", 2: "inconclusive (exit 2)"}.get(r["exit"], "exit %s" % r["exit"])
        first = (r.get("first") or [""])[0]
        first = re.sub(r"\s+", " ", first)[:110].replace("|", "/")
        det.append("%s: %s%s" % (c, v, (" - " + first) if first and r["exit"] == 1 else ""))
    rows.append("| %s | %s | %s *Needs:* %s | %s |" % (sid, m.get("property"), summ, need, "; ".join(det) or "not evaluated"))
p = os.path.join(HERE, "DESIGN.md")
s = open(p).read()
s = re.sub(r"<!-- SEEDTABLE BEGIN -->.*<!-- SEEDTABLE END -->", "<!-- SEEDTABLE BEGIN -->\n" + "\n".join(rows) + "\n<!-- SEEDTABLE END -->", s, flags=re.S)
open(p, "w").write(s)
print(len(rows) - 2, "seeds")
