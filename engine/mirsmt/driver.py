"""Driver helpers of engine E2: discover types from the MIR, build symbolic
quantity values through the real constructors, run operations, pose queries."""
import re
import time
from fractions import Fraction as F

import z3

from .exec import (Executor, State, Outcome, Amount, Enum, Struct, Tup, Arr, Ref, Int, GIter, b_and, to_z3, is_sym)
from .mirparse import Unsupported, strip_ref
from . import theories as T


class World:
    """What the dump says about the quantity types (nothing from /verif/spec)."""

    def __init__(self, dump):
        self.dump = dump
        self.P = dump.program
        self.enums = dump.enums
        self.backend = dump.backend
        self.AMT = "f64" if dump.backend == "f64" else "Decimal"
        self.qty = {}          # qty type -> unit type
        self.module = {}       # qty type -> module name ('' for crate root)
        for b in self.P.by_method.get("unit", []):
            if len(b.nparams) == 1 and b.nparams[0].startswith("&") and "<impl at" in b.name:
                q = strip_ref(b.nparams[0])
                if q in ("Q", "TQ", "PQ", "Self"):
                    continue
                self.qty[q] = b.nret
                m = re.match(r"^(\w+)::<impl at", b.name)
                self.module[q] = m.group(1) if m else ""
        self.scaled = set()
        for b in self.P.by_method.get("scale", []):
            if len(b.nparams) == 1:
                self.scaled.add(strip_ref(b.nparams[0]))
        self._units = {}
        self._scales = {}

    def has_ref(self, q):
        return self.qty[q] in self.scaled

    def is_single(self, q):
        return len(self.units(q)) == 1 and q != self.AMT

    def ref_types(self, include_amount=True):
        return [q for q in self.qty if self.has_ref(q) and (include_amount or q != self.AMT)]

    def executor(self, theory, assumptions=(), prune=True):
        return Executor(self.P, theory, self.enums, assumptions, prune)

    def units(self, q):
        """variant names in the order the real `iter()` yields them"""
        if q not in self._units:
            ex = self.executor(T.TUf(self.backend))
            st = State()
            outs = ex.call(st, "<%s as Unit>::iter" % self.qty[q], [], {})
            it = outs[0].value
            self._units[q] = [x.variant for _, x in it.items]
        return self._units[q]

    def unit(self, q, variant):
        return Enum(self.qty[q], variant)

    def scale_exact(self, q, variant):
        """the scale constant the code reports, as exact value (float for f64, Fraction for decimal)"""
        key = (q, variant)
        if key not in self._scales:
            th = T.TUf(self.backend)
            ex = self.executor(th)
            st = State()
            r = ex.temp_ref(st, self.unit(q, variant))
            outs = ex.call(st, "<%s as LinearScaledUnit>::scale" % self.qty[q], [r], {})
            a = outs[0].value
            if a.exact is None:
                raise Unsupported("scale of %s::%s is not a constant" % (q, variant))
            self._scales[key] = a.exact
        return self._scales[key]

    def scale_fr(self, q, variant):
        return F(self.scale_exact(q, variant))

    def si_prefix(self, q, variant):
        """SIPrefix variant name the code reports for the unit, or None"""
        ex = self.executor(T.TUf(self.backend))
        st = State()
        r = ex.temp_ref(st, self.unit(q, variant))
        outs = ex.call(st, "<%s as Unit>::si_prefix" % self.qty[q], [r], {})
        v = outs[0].value
        return None if v.variant == "None" else v.payload[0].variant

    def eligible(self, q):
        """units _fit may choose from, by the documented rule, from code-reported prefixes"""
        us = self.units(q)
        if self.si_prefix(q, self.ref_unit(q)) is None:
            return list(us)
        return [u for u in us if self.si_prefix(q, u) is not None]

    def ref_unit(self, q):
        ex = self.executor(T.TUf(self.backend))
        st = State()
        return ex.named_const(st, "<%s as HasRefUnit>::REF_UNIT" % q, {}).variant

    def operators(self):
        """derived operator instances found in the MIR: (lhs, 'mul'|'div', rhs, result, by_ref_forms)"""
        out = []
        seen = set()
        for op in ("mul", "div"):
            for b in self.P.by_method.get(op, []):
                if len(b.nparams) != 2 or "<impl at" not in b.name:
                    continue
                a, c = b.nparams
                if a.startswith("&") or c.startswith("&"):
                    continue
                if a in self.qty and c in self.qty and b.nret in self.qty and self.has_ref(a) and self.has_ref(c) and self.has_ref(b.nret):
                    if a == c and b.nret == self.AMT:
                        continue
                    # exclude scalar ops: k*q, q*k, q/k  (one side AmountT and result == other side)
                    if (a == self.AMT and b.nret == c) or (c == self.AMT and b.nret == a):
                        continue
                    key = (a, op, c, b.nret)
                    if key not in seen:
                        seen.add(key)
                        out.append(key)
        return out


class Run:
    """One symbolic execution context: a theory, an executor, a state."""

    def __init__(self, world, theory, assumptions=(), prune=True):
        self.w = world
        self.th = theory
        self.ex = world.executor(theory, assumptions, prune)
        self.assumptions = list(assumptions)

    def state(self):
        return State()

    def assume(self, *fs):
        for f in fs:
            self.assumptions.append(f)
            self.ex.assumptions.append(f)

    def qty(self, st, q, amount, variant):
        """build a quantity through the real constructor `<Q as Quantity>::new`"""
        outs = self.ex.call(st, "<%s as Quantity>::new" % q, [amount, self.w.unit(q, variant)], {})
        if len(outs) != 1 or outs[0].panic:
            raise Unsupported("constructor of %s" % q)
        return outs[0].value

    def ref(self, st, v):
        return self.ex.temp_ref(st, v)

    def call(self, st, callee, args, subst=None):
        return self.ex.call(st, callee, args, subst or {})

    def amount_of(self, st, q, v):
        outs = self.ex.call(st, "<%s as Quantity>::amount" % q, [self.ref(st, v)], {})
        return outs[0].value

    def unit_of(self, st, q, v):
        outs = self.ex.call(st, "<%s as Quantity>::unit" % q, [self.ref(st, v)], {})
        return outs[0].value.variant


class Solver:
    """one z3 context user; counts queries and time"""

    def __init__(self, timeout_ms=30000, seed=0):
        self.timeout_ms = timeout_ms
        self.seed = seed
        self.n = 0
        self.secs = 0.0
        self.worst = 0.0
        self.smt2_samples = []
        self.cross = []            # (smt2 text, verdict) for the cross-solver comparison
        self.cross_max = 3
        self.retries = 0

    def check(self, formulas, want_model=False, logic=None, keep_sample=False):
        s = z3.Solver() if logic is None else z3.SolverFor(logic)
        s.set("timeout", self.timeout_ms)
        if self.seed:
            try:
                s.set("random_seed", self.seed)
            except Exception:
                pass
        for f in formulas:
            if f is True:
                continue
            s.add(to_z3(f) if isinstance(f, bool) else f)
        t0 = time.time()
        r = s.check()
        if r == z3.unknown:
            # one retry with a longer limit and another seed (a loaded machine must not turn into a verdict)
            s.set("timeout", self.timeout_ms * 4)
            try:
                s.set("random_seed", self.seed + 7919)
            except Exception:
                pass
            self.retries += 1
            r = s.check()
        dt = time.time() - t0
        self.n += 1
        self.secs += dt
        self.worst = max(self.worst, dt)
        if keep_sample and len(self.smt2_samples) < 2:
            txt = s.to_smt2()
            self.smt2_samples.append(txt if len(txt) < 6000 else txt[:6000] + "\n; ... truncated")
        if keep_sample and len(self.cross) < self.cross_max and r != z3.unknown:
            self.cross.append((s.to_smt2(), "sat" if r == z3.sat else "unsat"))
        if r == z3.sat:
            return "sat", (s.model() if want_model else None)
        if r == z3.unsat:
            return "unsat", None
        return "unknown", None


def model_fraction(model, var):
    v = model.eval(var, model_completion=True)
    if z3.is_rational_value(v):
        return F(v.numerator_as_long(), v.denominator_as_long())
    if z3.is_algebraic_value(v):
        a = v.approx(40)
        return F(a.numerator_as_long(), a.denominator_as_long())
    if z3.is_fp(v) or z3.is_fprm(v):
        return v
    try:
        return F(str(v))
    except Exception:
        return None


def fp_model_bits(model, var):
    v = model.eval(var, model_completion=True)
    bv = model.eval(z3.fpToIEEEBV(v), model_completion=True)
    return bv.as_long()
