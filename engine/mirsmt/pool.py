"""Process pool for E2 obligations.  The parent only dumps MIR (text); every
z3 object lives in a worker process (fork start method, one z3 context each)."""
import multiprocessing as mp
import os
import time
import traceback

from .. import common
from . import frontend

_WORLDS = {}


def world(key):
    """key = backend ('f64' | 'dec') or ('crate', name, backend)"""
    from . import driver
    if key not in _WORLDS:
        if isinstance(key, tuple):
            d = frontend._cache[key]
        else:
            d = frontend._cache[("repo", key)]
        _WORLDS[key] = driver.World(d)
    return _WORLDS[key]


class TaskResult:
    def __init__(self):
        self.obligs = []        # (key, ok, symbolic)
        self.samples = []
        self.candidates = []    # dicts describing SAT models to be replayed natively
        self.inconclusive = []
        self.fns = set()
        self.stubs = set()
        self.queries = 0
        self.solver_s = 0.0
        self.worst = 0.0
        self.vacuity = []
        self.smt2 = []
        self.notes = []
        self.extra = {}
        self.cross = []

    def oblig(self, key, ok, symbolic=True, sample=None):
        self.obligs.append((key, ok, symbolic))
        if sample is not None and len(self.samples) < 3:
            self.samples.append(sample)

    def absorb_solver(self, sv):
        self.queries += sv.n
        self.solver_s += sv.secs
        self.worst = max(self.worst, sv.worst)
        for s in sv.smt2_samples:
            if len(self.smt2) < 1:
                self.smt2.append(s)
        self.cross += sv.cross

    def absorb_exec(self, ex):
        self.fns |= ex.fns_used
        self.stubs |= ex.stubs_used


def _call(args):
    fn, task = args
    t0 = time.time()
    try:
        r = fn(task)
    except Exception as e:
        r = TaskResult()
        from .mirparse import Unsupported
        kind = "cannot encode" if isinstance(e, Unsupported) else "internal error"
        r.inconclusive.append("%s in task %r: %s" % (kind, task if len(repr(task)) < 200 else repr(task)[:200], e))
        if not isinstance(e, Unsupported):
            r.notes.append(traceback.format_exc()[-1500:])
    r.wall = time.time() - t0
    return r


def describe_task(key):
    w = world(key)
    d = {"backend": w.backend, "qty": dict(w.qty), "module": dict(w.module), "units": {}, "has_ref": {}, "scales": {}, "ref_unit": {},
         "operators": w.operators(), "own": sorted(getattr(w.dump, "own_types", None) or [])}
    for q in w.qty:
        d["units"][q] = w.units(q)
        d["has_ref"][q] = w.has_ref(q)
        if w.has_ref(q):
            d["ref_unit"][q] = w.ref_unit(q)
            d["scales"][q] = {u: w.scale_exact(q, u) for u in w.units(q)}
            d.setdefault("prefix", {})[q] = {u: w.si_prefix(q, u) for u in w.units(q)}
    return d


def _describe(key):
    try:
        return describe_task(key)
    except Exception as e:
        return {"error": "%s: %s" % (type(e).__name__, e), "trace": traceback.format_exc()[-2000:]}


class Pool:
    def __init__(self, jobs=None):
        self.jobs = jobs or common.ncpu()
        self.cross_budget = 400 if os.environ.get("VERIF_TIER") == "thorough" else 48
        ctx = mp.get_context("fork")
        self.pool = ctx.Pool(self.jobs)

    def describe(self, key):
        d = self.pool.apply(_describe, (key,))
        if "error" in d:
            raise common.Inconclusive("cannot read the type structure from the MIR dump: %s\n%s" % (d["error"], d.get("trace", "")))
        return d

    def run(self, report, fn, tasks, engine="mirsmt"):
        """run fn(task) for every task, merge TaskResults into the report; returns list of candidates"""
        t0 = time.time()
        cands = []
        results = self.pool.imap_unordered(_call, [(fn, t) for t in tasks], chunksize=1)
        for r in results:
            for key, ok, sym in r.obligs:
                report.oblig(key, ok, sym)
            for s in r.samples:
                if len(report.samples) < 10:
                    report.samples.append(s)
            for s in r.smt2:
                if "smt2_sample" not in report.extra:
                    report.extra["smt2_sample"] = s
            report.evaluations += r.queries
            report.solver_s += r.solver_s
            report.extra["worst_query_s"] = round(max(report.extra.get("worst_query_s", 0.0), r.worst), 4)
            report.functions |= r.fns
            report.stubs |= r.stubs
            for m in r.inconclusive:
                report.inconcl(m)
            for n in r.notes:
                report.notes.append(n)
            for v in r.vacuity:
                if len(report.vacuity) < 40:
                    report.vacuity.append(v)
            for k, v in r.extra.items():
                if isinstance(v, int):
                    report.extra[k] = report.extra.get(k, 0) + v
            cands += r.candidates
            pend = report.extra.setdefault("_cross_pending", [])
            if len(pend) < self.cross_budget:
                pend.extend(r.cross[: max(0, self.cross_budget - len(pend))])
        report.time_engine(engine, time.time() - t0)
        return cands

    def cross_check(self, report):
        """second-solver comparison on a sample of this run's queries: z3 4.8.12 CLI on all sampled
        queries, cvc5 1.0 on the linear ones (it times out on division by variables); disagreement => inconclusive"""
        import subprocess, tempfile, re as _re
        pend = report.extra.pop("_cross_pending", [])
        if not pend:
            return
        t0 = time.time()
        sc = common.scratch()
        d = sc.dir("cross")
        stats = {"queries": 0, "z3_4.8.12_agree": 0, "z3_4.8.12_unknown": 0, "cvc5_agree": 0, "cvc5_unknown": 0, "cvc5_skipped_nonlinear": 0, "disagreements": 0}

        def verdict_of(text):
            if "(error" in text:
                return "error"
            vs = [l.strip() for l in text.split("\n") if l.strip() in ("sat", "unsat", "unknown")]
            return vs[0] if vs else "none"

        def one(args):
            i, txt, verdict = args
            f = os.path.join(d, "q%d.smt2" % i)
            open(f, "w").write(txt + "\n(check-sat)\n" if "(check-sat)" not in txt else txt)
            out = {}
            try:
                p = subprocess.run(["/usr/bin/z3", "-T:20", f], stdout=subprocess.PIPE, stderr=subprocess.STDOUT, text=True, timeout=40)
                o = verdict_of(p.stdout)
            except Exception:
                o = "timeout"
            out["z3"] = o
            nonlinear = bool(_re.search(r"\(/ [^()]*\(|\(\* [a-z!][^ ]* [a-z!]|\(/ [a-z!r]\S* [a-z!r]", txt)) or "Float" in txt or "declare-sort" in txt and False
            if nonlinear:
                out["cvc5"] = "skipped"
            else:
                try:
                    p = subprocess.run(["cvc5", "--lang", "smt2", "--tlimit=20000", f], stdout=subprocess.PIPE, stderr=subprocess.STDOUT, text=True, timeout=40)
                    o = verdict_of(p.stdout)
                except Exception:
                    o = "timeout"
                out["cvc5"] = o
            return verdict, out
        import concurrent.futures as cf
        with cf.ThreadPoolExecutor(max_workers=self.jobs) as ex:
            res = list(ex.map(one, [(i, t, v) for i, (t, v) in enumerate(pend)]))
        for verdict, out in res:
            stats["queries"] += 1
            for name, key in (("z3", "z3_4.8.12"), ("cvc5", "cvc5")):
                o = out[name]
                if o == "skipped":
                    stats["cvc5_skipped_nonlinear"] += 1
                elif o in ("sat", "unsat"):
                    if o == verdict:
                        stats[key + "_agree"] += 1
                    else:
                        stats["disagreements"] += 1
                        report.inconcl("cross-solver disagreement: z3 5.1 says %s, %s says %s" % (verdict, key, o))
                else:
                    stats[key + "_unknown"] += 1
        report.cross_solver = stats
        report.time_engine("cross_solver", time.time() - t0)

    def close(self):
        self.pool.terminate()
        self.pool.join()
