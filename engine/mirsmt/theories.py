"""Amount theories of engine E2 (DESIGN section 5.3).

  T_uf    uninterpreted amount sort: "exactly the amount type's own operation",
          valid for both back-ends at once
  T_re64  reals + relative rounding error u = 2^-53 per f64 operation, with the
          side obligation that every exact result is 0 or in the normal range
  T_red   reals + absolute rounding error 1e-18 per decimal mul/div, add/sub/cmp
          exact, side obligation |exact| < 1e20 and divisor != 0 (fpdec's panics)
  T_fp    SMT-LIB Float64, RNE, bit precise (witness search, symmetry)
"""
import math
import struct
from fractions import Fraction as F

import re
import z3

from .exec import Amount, b_and, b_or, b_not
from .mirparse import Unsupported

U64 = F(1, 2 ** 53)
MIN_NORMAL = F(1, 2 ** 1022)
MAX_FINITE = F(2 ** 1024 - 2 ** 971)
EPS_DEC = F(1, 10 ** 18)
DEC_LIMIT = F(10 ** 20)


def Q(fr):
    fr = F(fr)
    if fr.denominator == 1:
        return z3.RealVal(str(fr.numerator))
    return z3.RealVal(str(fr.numerator)) / z3.RealVal(str(fr.denominator))


def zabs(x):
    return z3.If(x >= 0, x, -x)


def round_dec18(fr):
    """round half even to 18 fractional digits (fpdec default)"""
    n = F(fr) * 10 ** 18
    fl = n.numerator // n.denominator
    rem = n - fl
    if rem > F(1, 2) or (rem == F(1, 2) and fl % 2 == 1):
        fl += 1
    return F(fl, 10 ** 18)


def float_bits(x):
    return struct.unpack("<Q", struct.pack("<d", x))[0]


def bits_float(b):
    return struct.unpack("<d", struct.pack("<Q", b & (2 ** 64 - 1)))[0]


class Theory:
    AMT = "f64"
    name = "?"

    def __init__(self, backend="f64"):
        self.backend = backend
        self.AMT = "f64" if backend == "f64" else "Decimal"
        self.cons = []      # definitional constraints of fresh symbols
        self.side = []      # (description, formula that must hold)  -- discharged by the driver, not assumed
        self.side_pc = []   # parallel to side: path condition (tuple) under which the operation was executed
        self.side_kind = []  # parallel: (op, 'sym'|'const', 'sym'|'const')
        self.declined = False
        self.nfrac_of = {}
        self.nfd_vars = {}
        self.cur_pc = ()
        self.n = 0
        self.memo = {}
        self.vars = {}

    # concrete arithmetic of the back-end on exact values
    def fold(self, op, x, y):
        if self.backend == "f64":
            try:
                r = {"Mul": lambda: x * y, "Div": lambda: x / y, "Add": lambda: x + y, "Sub": lambda: x - y}[op]()
            except ZeroDivisionError:
                return None
            if math.isnan(r) or math.isinf(r):
                return None
            return r
        if op == "Div" and y == 0:
            return None
        r = {"Mul": lambda: round_dec18(x * y), "Div": lambda: round_dec18(F(x) / F(y)), "Add": lambda: x + y, "Sub": lambda: x - y}[op]()
        return r

    def exact_of_literal(self, text):
        if self.backend == "f64":
            return float(text)
        return F(text)

    def named_const(self, path):
        last = path.rsplit("::", 1)[-1]
        if last in ("ZERO",) and "Decimal" in path:
            return self.const(F(0))
        if last in ("ONE",) and "Decimal" in path:
            return self.const(F(1))
        if self.backend == "f64" and re.search(r"\bf64\b", path):
            import sys
            tab = {"EPSILON": sys.float_info.epsilon, "MAX": sys.float_info.max, "MIN": -sys.float_info.max,
                   "MIN_POSITIVE": sys.float_info.min, "INFINITY": float("inf"), "NEG_INFINITY": float("-inf"), "NAN": float("nan")}
            if last in tab:
                try:
                    return self.const(tab[last])
                except (OverflowError, ValueError):
                    raise Unsupported("non-finite f64 constant %s in a real-valued theory" % path)
        return None

    def const_float_literal(self, text):
        return self.const(float(text))

    def const_int(self, i):
        return self.const(float(i) if self.backend == "f64" else F(i))

    def const_decimal(self, coeff, nfrac):
        a = self.const(F(coeff, 10 ** nfrac))
        self.nfrac_of.setdefault(a.term.get_id(), nfrac)
        return a

    def nfd(self, a):
        """number of fractional digits of a decimal's representation: known for `Decimal::new_raw` constants, otherwise any
        value in 0..18 (a fresh integer per term; an over-approximation of fpdec's bookkeeping)"""
        if self.backend != "dec":
            raise Unsupported("n_frac_digits outside the decimal configuration")
        k = a.term.get_id()
        if k in self.nfrac_of:
            return self.nfrac_of[k]
        if k not in self.nfd_vars:
            v = z3.Int("nfd!%d" % len(self.nfd_vars))
            self.cons.append(z3.And(v >= 0, v <= 18))
            self.nfd_vars[k] = v
        return self.nfd_vars[k]

    def is_one(self, a):
        return a.exact is not None and a.exact == 1

    def is_zero(self, a):
        return a.exact is not None and a.exact == 0


# ---------------------------------------------------------------------------

class TReal(Theory):
    """shared code of T_re64 / T_red"""

    def const(self, v):
        return Amount(Q(F(v)), v)

    def var(self, name):
        v = z3.Real(name)
        self.vars[name] = v
        return Amount(v)

    def fresh(self):
        self.n += 1
        return z3.Real("r!%d" % self.n)

    def neg(self, a):
        if a.exact is not None:
            return self.const(-a.exact)
        return Amount(-a.term)

    def abs(self, a):
        if a.exact is not None:
            return self.const(abs(a.exact))
        return Amount(zabs(a.term))

    def cmp(self, op, a, b):
        if a.exact is not None and b.exact is not None:
            x, y = a.exact, b.exact
            return {"Eq": x == y, "Ne": x != y, "Lt": x < y, "Le": x <= y, "Gt": x > y, "Ge": x >= y}[op]
        x, y = a.term, b.term
        return {"Eq": x == y, "Ne": x != y, "Lt": x < y, "Le": x <= y, "Gt": x > y, "Ge": x >= y}[op]

    def partial_cmp(self, a, b):
        return [(self.cmp("Lt", a, b), "Less"), (self.cmp("Eq", a, b), "Equal"), (self.cmp("Gt", a, b), "Greater")]

    def value(self, a):
        """exact rational value term of an amount"""
        return a.term


class TRe64(TReal):
    name = "T_re64"

    def __init__(self):
        super().__init__("f64")

    def bin(self, op, a, b):
        if a.exact is not None and b.exact is not None:
            r = self.fold(op, a.exact, b.exact)
            if r is not None:
                return self.const(r)
            self.declined = True       # concrete operands with a non-finite result (outside T_re64)
        key = (op, a.term.get_id(), b.term.get_id())
        if op in ("Mul", "Add") and key[1] > key[2]:
            key = (op, key[2], key[1])
        if key in self.memo:
            return self.memo[key]
        x, y = a.term, b.term
        if op == "Div":
            self.side.append(("f64 division: divisor non-zero (inf/NaN are outside T_re64)", y != 0))
        t = {"Mul": x * y, "Div": x / y, "Add": x + y, "Sub": x - y}[op]
        r = self.fresh()
        at = zabs(t)
        self.cons.append(z3.And(r - t <= Q(U64) * at, t - r <= Q(U64) * at))
        if op in ("Mul", "Div"):
            self.side.append(("f64 %s result is zero or normal (no underflow/overflow)" % op,
                              z3.Or(t == 0, z3.And(at >= Q(MIN_NORMAL), at <= Q(MAX_FINITE)))))
        else:
            self.side.append(("f64 %s result does not overflow" % op, at <= Q(MAX_FINITE)))
        res = Amount(r)
        self.memo[key] = res
        return res


class TRed(TReal):
    name = "T_red"

    def __init__(self):
        super().__init__("dec")
        self.side_exact = []
        self._seen_side = set()
        self.fresh_exact = {}

    def _side(self, desc, f, kind, exact=None):
        k = (desc, f.get_id(), tuple(c.get_id() if hasattr(c, "get_id") else c for c in self.cur_pc))
        if k in self._seen_side:
            return
        self._seen_side.add(k)
        self.side.append((desc, f))
        self.side_pc.append(tuple(self.cur_pc))
        self.side_kind.append(kind)
        self.side_exact.append(exact)

    def const_float_literal(self, text):
        raise Unsupported("float literal in decimal configuration")

    def bin(self, op, a, b):
        if a.exact is not None and b.exact is not None:
            r = self.fold(op, a.exact, b.exact)
            if r is not None and abs(r) < DEC_LIMIT:
                return self.const(r)
            self.declined = True       # concrete operands but the result may not be representable (or divisor zero)
        x, y = a.term, b.term
        if op in ("Add", "Sub"):
            t = x + y if op == "Add" else x - y
            self._side("decimal %s stays in range" % op, zabs(t) < Q(DEC_LIMIT), (op, "sym", "sym"), exact=t)
            return Amount(t)
        # fpdec shortcuts are value-exact anyway: x*1, 1*x, x/1, 0*x
        if op == "Mul" and self.is_one(b):
            return a
        if op == "Mul" and self.is_one(a):
            return b
        if op == "Div" and self.is_one(b):
            return a
        key = (op, a.term.get_id(), b.term.get_id())
        if op == "Mul" and key[1] > key[2]:
            key = (op, key[2], key[1])
        kind = (op, "const" if a.exact is not None else "sym", "const" if b.exact is not None else "sym")
        t = x * y if op == "Mul" else x / y
        if op == "Div":
            # exact= the unrounded value of the divisor when it is itself a rounded result (for witnesses that clearly round to zero)
            self._side("decimal division: divisor non-zero", y != 0, kind, exact=self.fresh_exact.get(y.get_id()))
        self._side("decimal %s result representable (|exact| < 1e20)" % op, zabs(t) < Q(DEC_LIMIT), kind, exact=t)
        if key in self.memo:
            return self.memo[key]
        r = self.fresh()
        self.fresh_exact[r.get_id()] = t
        self.cons.append(z3.And(r - t <= Q(EPS_DEC), t - r <= Q(EPS_DEC)))
        res = Amount(r)
        self.memo[key] = res
        return res


# ---------------------------------------------------------------------------

class TUf(Theory):
    """Uninterpreted amounts.  fadd/fmul commutative (canonical argument
    order), x*1 = 1*x = x/1 = x, equality symmetric, a>b := b<a, a<=b := a<b or
    a==b, at most one of a<b, a==b, b<a."""
    name = "T_uf"

    def __init__(self, backend="f64", total=False):
        super().__init__(backend)
        self.total = total          # assume every compared pair is ordered (non-NaN amounts)
        self.A = z3.DeclareSort("Amt")
        A = self.A
        self.f = {op: z3.Function("f" + op.lower(), A, A, A) for op in ("Mul", "Div", "Add", "Sub")}
        self.fneg = z3.Function("fneg", A, A)
        self.fabs = z3.Function("fabs", A, A)
        self.flt = z3.Function("flt", A, A, z3.BoolSort())
        self.feq = z3.Function("feq", A, A, z3.BoolSort())
        self.consts = {}
        self.pairs = set()

    def const(self, v):
        key = repr(v) if self.backend == "f64" else str(F(v))
        if key not in self.consts:
            c = z3.Const("c[%s]" % key, self.A)
            self.consts[key] = c
        return Amount(self.consts[key], v)

    def finish_consts(self):
        cs = list(self.consts.values())
        return [z3.Distinct(cs)] if len(cs) > 1 else []

    def var(self, name):
        v = z3.Const(name, self.A)
        self.vars[name] = v
        return Amount(v)

    def bin(self, op, a, b):
        if a.exact is not None and b.exact is not None:
            r = self.fold(op, a.exact, b.exact)
            if r is not None:
                return self.const(r)
        if op == "Mul" and self.is_one(b):
            return a
        if op == "Mul" and self.is_one(a):
            return b
        if op == "Div" and self.is_one(b):
            return a
        if self.backend == "dec" and op == "Mul" and (self.is_zero(a) or self.is_zero(b)):
            return self.const(F(0))        # exact for decimals; NOT for f64 (inf*0, sign of zero)
        x, y = a.term, b.term
        if op in ("Mul", "Add") and x.get_id() > y.get_id():
            x, y = y, x
        return Amount(self.f[op](x, y))

    def neg(self, a):
        if a.exact is not None:
            return self.const(-a.exact)
        return Amount(self.fneg(a.term))

    def abs(self, a):
        if a.exact is not None:
            return self.const(abs(a.exact))
        return Amount(self.fabs(a.term))

    def _pair(self, x, y):
        k = (x.get_id(), y.get_id())
        if k not in self.pairs and (k[1], k[0]) not in self.pairs:
            self.pairs.add(k)
            lt, gt, eq = self.flt(x, y), self.flt(y, x), self._eq(x, y)
            self.cons.append(z3.And(z3.Not(z3.And(lt, gt)), z3.Not(z3.And(lt, eq)), z3.Not(z3.And(gt, eq))))
            if self.total:
                self.cons.append(z3.Or(lt, gt, eq))

    def _eq(self, x, y):
        if x.get_id() > y.get_id():
            x, y = y, x
        return self.feq(x, y)

    def cmp(self, op, a, b):
        if a.exact is not None and b.exact is not None:
            x, y = a.exact, b.exact
            return {"Eq": x == y, "Ne": x != y, "Lt": x < y, "Le": x <= y, "Gt": x > y, "Ge": x >= y}[op]
        x, y = a.term, b.term
        self._pair(x, y)
        if op == "Eq":
            return self._eq(x, y)
        if op == "Ne":
            return z3.Not(self._eq(x, y))
        if op == "Lt":
            return self.flt(x, y)
        if op == "Gt":
            return self.flt(y, x)
        if op == "Le":
            return z3.Or(self.flt(x, y), self._eq(x, y))
        if op == "Ge":
            return z3.Or(self.flt(y, x), self._eq(x, y))
        raise Unsupported(op)

    def partial_cmp(self, a, b):
        lt, eq, gt = self.cmp("Lt", a, b), self.cmp("Eq", a, b), self.cmp("Gt", a, b)
        return [(lt, "Less"), (eq, "Equal"), (gt, "Greater"), (b_and(b_not(lt), b_not(eq), b_not(gt)), None)]


# ---------------------------------------------------------------------------

class TFp(Theory):
    """bit-precise IEEE-754 binary64"""
    name = "T_fp"

    def __init__(self):
        super().__init__("f64")
        self.S = z3.Float64()
        self.rm = z3.RNE()

    def const(self, v):
        return Amount(z3.FPVal(v, self.S), v)

    def var(self, name):
        v = z3.FP(name, self.S)
        self.vars[name] = v
        return Amount(v)

    def bin(self, op, a, b):
        if a.exact is not None and b.exact is not None:
            r = self.fold(op, a.exact, b.exact)
            if r is not None:
                return self.const(r)
        f = {"Mul": z3.fpMul, "Div": z3.fpDiv, "Add": z3.fpAdd, "Sub": z3.fpSub}[op]
        return Amount(f(self.rm, a.term, b.term))

    def neg(self, a):
        if a.exact is not None:
            return self.const(-a.exact)
        return Amount(z3.fpNeg(a.term))

    def abs(self, a):
        return Amount(z3.fpAbs(a.term))

    def cmp(self, op, a, b):
        if a.exact is not None and b.exact is not None:
            x, y = a.exact, b.exact
            return {"Eq": x == y, "Ne": x != y, "Lt": x < y, "Le": x <= y, "Gt": x > y, "Ge": x >= y}[op]
        x, y = a.term, b.term
        return {"Eq": z3.fpEQ(x, y), "Ne": z3.Not(z3.fpEQ(x, y)), "Lt": z3.fpLT(x, y), "Le": z3.fpLEQ(x, y),
                "Gt": z3.fpGT(x, y), "Ge": z3.fpGEQ(x, y)}[op]

    def partial_cmp(self, a, b):
        lt, eq, gt = self.cmp("Lt", a, b), self.cmp("Eq", a, b), self.cmp("Gt", a, b)
        return [(lt, "Less"), (eq, "Equal"), (gt, "Greater"), (b_and(b_not(lt), b_not(eq), b_not(gt)), None)]
