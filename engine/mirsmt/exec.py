"""Symbolic executor over rustc MIR (engine E2, DESIGN section 5.2).

Executes the generic default methods of src/lib.rs, src/rate.rs and
src/converter.rs instantiated for a concrete quantity type, together with the
monomorphic macro-generated impls, on symbolic amounts owned by a pluggable
amount theory.  Units are concrete per query, so only amount-dependent
branches fork.  Every callee that is not defined in the dump goes through an
explicit summary (listed in `Executor.stubs_used`); anything else raises
Unsupported -- never a verdict.
"""
import re
from fractions import Fraction as F

import z3

from .mirparse import (Unsupported, parse_stmt, norm_ty, strip_ref, ty_head_args, subst_ty, split_top, top_find)

GENERICS = ("Self", "TQ", "PQ", "Q", "N", "T")
MAX_PATHS = 4000
MAX_STEPS = 400000


# ---------------------------------------------------------------------------
# values (all immutable)

class Amount:
    __slots__ = ("term", "exact")

    def __init__(self, term, exact=None):
        self.term = term
        self.exact = exact      # concrete value (Fraction | float special) if known

    def __repr__(self):
        return "Amt(%s)" % (self.exact if self.exact is not None else self.term)


class Enum:
    __slots__ = ("ty", "variant", "payload")

    def __init__(self, ty, variant, payload=()):
        self.ty, self.variant, self.payload = ty, variant, tuple(payload)

    def __repr__(self):
        return "%s::%s%s" % (self.ty, self.variant, ("(%s)" % ", ".join(map(repr, self.payload))) if self.payload else "")

    def __eq__(self, o):
        return isinstance(o, Enum) and self.ty == o.ty and self.variant == o.variant and self.payload == o.payload

    def __hash__(self):
        return hash((self.ty, self.variant))


class Struct:
    __slots__ = ("ty", "names", "vals")

    def __init__(self, ty, names, vals):
        self.ty, self.names, self.vals = ty, tuple(names), tuple(vals)

    def get(self, name):
        return self.vals[self.names.index(name)]

    def __repr__(self):
        return "%s{%s}" % (self.ty, ", ".join("%s: %r" % kv for kv in zip(self.names, self.vals)))


class Tup:
    __slots__ = ("vals",)

    def __init__(self, vals):
        self.vals = tuple(vals)

    def __repr__(self):
        return "(%s)" % ", ".join(map(repr, self.vals))


class Arr:
    __slots__ = ("vals",)

    def __init__(self, vals):
        self.vals = tuple(vals)

    def __repr__(self):
        return "[%s]" % ", ".join(map(repr, self.vals))


class Ref:
    __slots__ = ("fid", "local", "proj")

    def __init__(self, fid, local, proj=()):
        self.fid, self.local, self.proj = fid, local, tuple(proj)

    def __repr__(self):
        return "&%s.%s%s" % (self.fid, self.local, "".join(".%s" % (p[1],) for p in self.proj))


class Closure:
    __slots__ = ("cid", "names", "vals", "subst")

    def __init__(self, cid, names, vals, subst):
        self.cid, self.names, self.vals, self.subst = cid, tuple(names), tuple(vals), dict(subst)

    def __repr__(self):
        return "closure%s" % self.cid


class Str:
    __slots__ = ("s",)

    def __init__(self, s):
        self.s = s

    def __repr__(self):
        return "Str(%r)" % self.s


class GIter:
    """Summary of core::iter adaptors: the remaining items with their guards.
    by_ref: the iterator yields references to the items (slice::Iter before .cloned()/.copied())."""
    __slots__ = ("items", "by_ref")

    def __init__(self, items, by_ref=False):
        self.items = tuple(items)       # ((guard: True | z3 Bool, value), ...)
        self.by_ref = by_ref

    def __repr__(self):
        return "GIter(%d)" % len(self.items)


class Opaque:
    __slots__ = ("tag",)

    def __init__(self, tag):
        self.tag = tag

    def __repr__(self):
        return "Opaque(%s)" % self.tag


class Int:
    """concrete machine integer with its type"""
    __slots__ = ("v", "ty")

    def __init__(self, v, ty):
        self.v, self.ty = v, ty

    def __repr__(self):
        return "%d_%s" % (self.v, self.ty)

    def __eq__(self, o):
        return isinstance(o, Int) and self.v == o.v

    def __hash__(self):
        return hash(self.v)


class SymInt:
    """symbolic small integer (only produced by representation queries such as Decimal::n_frac_digits)"""
    __slots__ = ("term", "ty")

    def __init__(self, term, ty):
        self.term, self.ty = term, ty

    def __repr__(self):
        return "SymInt(%s)" % self.term


UNIT = Tup(())


class State:
    __slots__ = ("frames", "pc")

    def __init__(self, frames=None, pc=None):
        self.frames = frames if frames is not None else {}
        self.pc = pc if pc is not None else []

    def fork(self, extra=None):
        s = State({k: dict(v) for k, v in self.frames.items()}, list(self.pc))
        if extra is not None:
            s.pc.append(extra)
        return s


class Outcome:
    __slots__ = ("state", "value", "panic")

    def __init__(self, state, value, panic=None):
        self.state, self.value, self.panic = state, value, panic

    @property
    def pc(self):
        return self.state.pc


def is_sym(b):
    return z3.is_expr(b)


def b_not(b):
    return (not b) if isinstance(b, bool) else z3.Not(b)


def b_and(*bs):
    out = []
    for b in bs:
        if b is True:
            continue
        if b is False:
            return False
        out.append(b)
    if not out:
        return True
    return out[0] if len(out) == 1 else z3.And(out)


def b_or(*bs):
    out = []
    for b in bs:
        if b is False:
            continue
        if b is True:
            return True
        out.append(b)
    if not out:
        return False
    return out[0] if len(out) == 1 else z3.Or(out)


def to_z3(b):
    return z3.BoolVal(b) if isinstance(b, bool) else b


# ---------------------------------------------------------------------------

class Executor:
    def __init__(self, program, theory, enums, assumptions=(), prune=True):
        self.P = program
        self.th = theory
        self.enums = enums              # enum name -> [(variant, discriminant)]
        self.assumptions = list(assumptions)
        self.prune = prune
        self.fid = 0
        self.frame_info = {}
        self.steps = 0
        self.stubs_used = set()
        self.fns_used = set()
        self.n_prune = 0
        self._solver = None
        self._assoc_cache = {}
        self._impl_cache = {}
        self.AMT = theory.AMT           # 'f64' | 'Decimal'

    # ------------------------------------------------------------------ util
    def new_frame(self, st, init=None):
        self.fid += 1
        st.frames[self.fid] = dict(init or {})
        return self.fid

    def temp_ref(self, st, value):
        fid = self.new_frame(st, {"_t": value})
        return Ref(fid, "_t")

    def feasible(self, st, extra=None):
        if not self.prune:
            return True
        conds = [c for c in st.pc if c is not True]
        if extra is not None:
            if extra is False:
                return False
            if extra is not True:
                conds = conds + [extra]
        if not any(is_sym(c) for c in conds):
            return all(c is not False for c in conds)
        if self._solver is None:
            self._solver = z3.Solver()
            self._solver.set("timeout", 20000)
            self._ncons = 0
        s = self._solver
        s.push()
        try:
            s.add(self.assumptions)
            s.add(self.th.cons)
            s.add([to_z3(c) for c in conds])
            self.n_prune += 1
            r = s.check()
        finally:
            s.pop()
        return r != z3.unsat

    # ------------------------------------------------------------------ types
    def resolve_ty(self, t, subst):
        """normalise, substitute generics, resolve associated-type projections"""
        t = norm_ty(t)
        t = subst_ty(t, subst)
        for _ in range(6):
            m = re.search(r"<([^<>]*(?:<[^<>]*>)?[^<>]*) as (\w+)(<[^<>]*>)?>::(\w+)", t)
            if not m:
                break
            base, trait, targs, assoc = m.groups()
            r = self.assoc(base.strip(), trait, targs, assoc)
            if r is None:
                break
            t = t[:m.start()] + r + t[m.end():]
        return t

    def assoc(self, base, trait, targs, assoc):
        key = (base, trait, targs, assoc)
        if key in self._assoc_cache:
            return self._assoc_cache[key]
        r = None
        if assoc == "UnitType":
            for b in self.P.by_method.get("unit", []):
                if len(b.nparams) == 1 and strip_ref(b.nparams[0]) == base:
                    r = b.nret
        elif assoc == "QuantityType":
            for b in self.P.by_method.get("unit", []):
                if len(b.nparams) == 1 and b.nret == base:
                    r = strip_ref(b.nparams[0])
        elif assoc == "Output" and trait in ("Mul", "Div", "Add", "Sub"):
            rhs = targs[1:-1].strip() if targs else base
            for b in self.P.by_method.get(trait.lower(), []):
                if len(b.nparams) == 2 and b.nparams[0] == base and b.nparams[1] == rhs:
                    r = b.nret
            if r is None and base == self.AMT and rhs == self.AMT:
                r = self.AMT
        elif assoc == "Item":
            r = "?"
        self._assoc_cache[key] = r
        return r

    def tyof(self, st, v):
        if isinstance(v, Amount):
            return self.AMT
        if isinstance(v, (Enum, Struct)):
            return v.ty
        if isinstance(v, Ref):
            return "&" + self.tyof(st, self.load(st, v))
        if isinstance(v, bool) or is_sym(v):
            return "bool"
        if isinstance(v, Int):
            return v.ty
        if isinstance(v, Str):
            return "str"
        if isinstance(v, Tup):
            return "(%s)" % ", ".join(self.tyof(st, x) for x in v.vals)
        if isinstance(v, Arr):
            return "[%s; %d]" % (self.tyof(st, v.vals[0]) if v.vals else "?", len(v.vals))
        if isinstance(v, Closure):
            return v.cid
        return "?"

    def ty_match(self, pat, act, binds):
        """structural match of a parameter type pattern against an actual type"""
        pat, act = pat.strip(), act.strip()
        if act == "?" or pat == "?":
            return True
        if pat in GENERICS:
            if pat in binds and binds[pat] != act and act != "?":
                return False
            binds.setdefault(pat, act)
            return True
        if pat.startswith("<") or pat.startswith("impl "):       # projection on a generic: wildcard
            return True
        if pat.startswith("&"):
            if not act.startswith("&"):
                return False
            p2 = pat[1:].strip()
            a2 = act[1:].strip()
            if p2.startswith("mut "):
                p2 = p2[4:]
            if a2.startswith("mut "):
                a2 = a2[4:]
            return self.ty_match(p2, a2, binds)
        if act.startswith("&"):
            return False
        if pat.startswith("(") and pat.endswith(")"):
            if not (act.startswith("(") and act.endswith(")")):
                return False
            ps, as_ = split_top(pat[1:-1]), split_top(act[1:-1])
            return len(ps) == len(as_) and all(self.ty_match(p, a, binds) for p, a in zip(ps, as_))
        if pat.startswith("["):
            return act.startswith("[")
        ph, pa = ty_head_args(pat)
        ah, aa = ty_head_args(act)
        if ph != ah:
            return False
        if pa and aa and len(pa) == len(aa):
            return all(self.ty_match(p, a, binds) for p, a in zip(pa, aa))
        return True

    # ------------------------------------------------------------------ memory
    def resolve_ref(self, st, fid, place):
        k = place[0]
        if k == "local":
            return Ref(fid, place[1])
        if k == "deref":
            v = self.read(st, fid, place[1])
            if not isinstance(v, Ref):
                raise Unsupported("deref of non-reference %r" % (v,))
            return v
        if k == "field":
            r = self.resolve_ref(st, fid, place[1])
            return Ref(r.fid, r.local, r.proj + (("f", place[2]),))
        if k == "downcast":
            r = self.resolve_ref(st, fid, place[1])
            return Ref(r.fid, r.local, r.proj + (("d", place[2]),))
        if k == "cindex":
            r = self.resolve_ref(st, fid, place[1])
            return Ref(r.fid, r.local, r.proj + (("i", place[2]),))
        if k == "index":
            r = self.resolve_ref(st, fid, place[1])
            i = self.read(st, fid, place[2])
            if not isinstance(i, Int):
                raise Unsupported("symbolic index")
            return Ref(r.fid, r.local, r.proj + (("i", i.v),))
        raise Unsupported("place %r" % (place,))

    def load(self, st, ref):
        try:
            v = st.frames[ref.fid][ref.local]
        except KeyError:
            v = self.zst_local(ref.fid, ref.local)
            if v is None:
                raise Unsupported("read of uninitialised local %s" % ref.local)
        for kind, x in ref.proj:
            v = self._project(v, kind, x)
        return v

    @staticmethod
    def _project(v, kind, x):
        if kind == "f":
            if isinstance(v, (Struct, Tup, Closure)):
                return v.vals[x]
            if isinstance(v, Enum):
                return v.payload[x]
            raise Unsupported("field of %r" % (v,))
        if kind == "d":
            if isinstance(v, Enum):
                if v.variant != x:
                    raise Unsupported("downcast %s of %r" % (x, v))
                return v
            raise Unsupported("downcast of %r" % (v,))
        if kind == "i":
            if isinstance(v, Arr):
                return v.vals[x]
            raise Unsupported("index of %r" % (v,))
        raise Unsupported(kind)

    def zst_value(self, ty):
        """value of a zero-sized type (single-variant fieldless enum, unit), else None"""
        head = ty_head_args(ty)[0]
        if head in self.enums and len(self.enums[head]) == 1:
            return Enum(head, self.enums[head][0][0])
        if ty == "()":
            return UNIT
        return None

    def zst_local(self, fid, local):
        info = self.frame_info.get(fid)
        if not info:
            return None
        body, subst = info
        t = body.locals.get(local)
        if t is None:
            return None
        return self.zst_value(self.resolve_ty(t, subst))

    def store(self, st, ref, val):
        fr = st.frames[ref.fid]
        if not ref.proj:
            fr[ref.local] = val
            return
        fr[ref.local] = self._update(fr.get(ref.local), ref.proj, val)

    def _update(self, v, proj, val):
        if not proj:
            return val
        (kind, x), rest = proj[0], proj[1:]
        if kind == "f":
            if isinstance(v, Struct):
                vals = list(v.vals)
                vals[x] = self._update(vals[x], rest, val)
                return Struct(v.ty, v.names, vals)
            if isinstance(v, Tup):
                vals = list(v.vals)
                vals[x] = self._update(vals[x], rest, val)
                return Tup(vals)
            if isinstance(v, Enum):
                vals = list(v.payload)
                vals[x] = self._update(vals[x], rest, val)
                return Enum(v.ty, v.variant, vals)
            if v is None and not rest:
                raise Unsupported("field write into uninitialised aggregate")
        if kind == "d":
            return self._update(v, rest, val)
        if kind == "i" and isinstance(v, Arr):
            vals = list(v.vals)
            vals[x] = self._update(vals[x], rest, val)
            return Arr(vals)
        raise Unsupported("store through %r into %r" % (proj, v))

    def read(self, st, fid, place):
        return self.load(st, self.resolve_ref(st, fid, place))

    def write(self, st, fid, place, val):
        self.store(st, self.resolve_ref(st, fid, place), val)

    # ------------------------------------------------------------------ operands / constants
    def operand(self, st, fid, op, subst):
        k = op[0]
        if k in ("copy", "move"):
            return self.read(st, fid, op[1])
        return self.constant(st, op[1], subst)

    def constant(self, st, c, subst):
        c = c.strip()
        m = re.match(r"^(-?[\d.]+(?:[eE][-+]?\d+)?|-?inf|NaN)(f64|f32)$", c)
        if m:
            return self.th.const_float_literal(m.group(1))
        m = re.match(r"^(-?\d+)_([iu](?:\d+|size))$", c)
        if m:
            return Int(int(m.group(1)), m.group(2))
        if c == "true":
            return True
        if c == "false":
            return False
        if c.startswith('"'):
            return Str(_unescape(c[1:-1]))
        if c.startswith('b"'):
            return Opaque("bytes")
        if c == "()":
            return UNIT
        if c.startswith("ZeroSized") or c.startswith("{") or c.startswith("fn "):
            return Opaque(c)
        return self.named_const(st, c, subst)

    def named_const(self, st, c, subst):
        raw = c
        # <T as Trait>::NAME
        m = re.match(r"^<(.+) as ([\w:]+)>::(\w+)$", c)
        if m:
            ty = self.resolve_ty(m.group(1), subst)
            trait = m.group(2).rsplit("::", 1)[-1]
            name = m.group(3)
            cands = [b for b in self.P.const_by_last.get(name, []) if "<impl at" in b.name]
            if name == "REF_UNIT":
                if trait == "HasRefUnit":
                    ut = self.assoc(ty, "Quantity", None, "UnitType")
                    cs = [b for b in cands if b.nret == ut]
                    if ty == self.AMT:
                        cs = [b for b in cands if b.nret == "One"]
                    pick = cs[-1] if cs else None      # LinearScaledUnit impl comes first, HasRefUnit second
                else:
                    cs = [b for b in cands if b.nret == ty]
                    pick = cs[0] if cs else None
                if pick is None:
                    raise Unsupported("const " + raw)
                return self.eval_const(st, pick)
            cs = [b for b in cands if b.nret == ty or ty in b.nret]
            if cs:
                return self.eval_const(st, cs[-1])
            raise Unsupported("const " + raw)
        # promoted of an impl item:  <T as Trait>::method::promoted[N]  or  path::promoted[N]
        m = re.match(r"^(.*)::promoted\[(\d+)\]$", c)
        if m:
            owner = m.group(1)
            mm = re.match(r"^<(.+) as ([\w:<>, ]+)>::(\w+)$", owner)
            if mm:
                ty = self.resolve_ty(mm.group(1), subst)
                meth = mm.group(3)
                cs = [b for n, bs in self.P.consts.items() for b in bs
                      if n.endswith("::%s::promoted[%s]" % (meth, m.group(2))) and (strip_ref(ty) in b.nret)]
                if cs:
                    return self.eval_const(st, cs[-1])
                # promoted constant of a trait's default method (body shared by all implementors)
                tl = mm.group(2).split("<")[0].rsplit("::", 1)[-1].strip()
                cs = self.P.consts.get("%s::%s::promoted[%s]" % (tl, meth, m.group(2)))
                if cs:
                    return self.eval_const(st, cs[-1])
            cs = self.P.consts.get(c) or [b for n, bs in self.P.consts.items() for b in bs if norm_ty(n) == norm_ty(c)]
            if cs:
                return self.eval_const(st, cs[-1])
            raise Unsupported("promoted " + raw)
        # plain path:  module::NAME / NAME / Type::NAME
        last = c.rsplit("::", 1)[-1]
        th = self.th.named_const(c)
        if th is not None:
            return th
        if last == "MAX_N_FRAC_DIGITS" and "fpdec" in c:
            return Int(18, "u8")            # documented constant of fpdec 0.11
        cs = self.P.const_by_last.get(last, [])
        if cs:
            exact = [b for b in cs if b.name == c or norm_ty(b.name) == norm_ty(c)]
            if not exact:
                m = re.match(r"^(?:.*::)?(\w+)::\w+$", c)
                if m:      # inherent associated const `Type::NAME`
                    exact = [b for b in cs if re.search(r"\b%s\b" % re.escape(m.group(1)), b.nret)]
                    if not exact and len(cs) > 1:
                        raise Unsupported("ambiguous const " + raw)
            return self.eval_const(st, (exact or cs)[-1])
        # unit-like enum variant used as constant, e.g. `One::One`
        m = re.match(r"^(?:.*::)?(\w+)::(\w+)$", c)
        if m and m.group(1) in self.enums:
            return Enum(m.group(1), m.group(2))
        raise Unsupported("const " + raw)

    def eval_const(self, st, body):
        if body.value is not None:
            v = body.value.strip()
            if v.startswith("const "):
                v = v[6:]
            return self.constant(st, v, {})
        outs = self.exec_body(st, body, [], {})
        if len(outs) != 1 or outs[0].panic:
            raise Unsupported("const body " + body.name)
        return outs[0].value

    # ------------------------------------------------------------------ rvalues
    def rvalue(self, st, fid, rv, subst):
        k = rv[0]
        if k == "binop":
            self.th.cur_pc = tuple(st.pc)
        if k == "use":
            return self.operand(st, fid, rv[1], subst)
        if k == "ref":
            return self.resolve_ref(st, fid, rv[1])
        if k == "binop":
            a = self.operand(st, fid, rv[2], subst)
            b = self.operand(st, fid, rv[3], subst)
            return self.binop(rv[1], a, b)
        if k == "unop":
            a = self.operand(st, fid, rv[2], subst)
            if rv[1] == "Not":
                if isinstance(a, Int):
                    return Int(~a.v, a.ty)
                return b_not(a)
            if rv[1] == "Neg":
                if isinstance(a, Amount):
                    return self.th.neg(a)
                if isinstance(a, Int):
                    return Int(-a.v, a.ty)
            raise Unsupported("unop %s" % rv[1])
        if k == "discr":
            v = self.read(st, fid, rv[1])
            return self.discriminant(v)
        if k == "cast":
            v = self.operand(st, fid, rv[1], subst)
            kind = rv[3]
            if kind == "IntToFloat":
                return self.th.const_int(v.v)
            if kind == "FloatToInt" and isinstance(v, Amount) and v.exact is not None:
                ty = norm_ty(rv[2])
                import math as _m
                return Int(_wrap(int(_m.trunc(v.exact)), ty), ty)
            if kind == "IntToInt":
                ty = norm_ty(rv[2])
                if isinstance(v, SymInt):
                    return SymInt(v.term, ty)
                return Int(_wrap(v.v, ty), ty)
            if kind.startswith("PointerCoercion") or kind in ("PtrToPtr", "Transmute", "Subtype"):
                return v
            raise Unsupported("cast %s" % kind)
        if k == "array":
            return Arr([self.operand(st, fid, o, subst) for o in rv[1]])
        if k == "tuple":
            return Tup([self.operand(st, fid, o, subst) for o in rv[1]])
        if k == "struct":
            ty = self.resolve_ty(rv[1], subst)
            return Struct(ty, [n for n, _ in rv[2]], [self.operand(st, fid, o, subst) for _, o in rv[2]])
        if k == "closure":
            return Closure(rv[1], [n for n, _ in rv[2]], [self.operand(st, fid, o, subst) for _, o in rv[2]], subst)
        if k == "variant" and rv[1] == "":
            if rv[2] in ("Less", "Equal", "Greater"):
                return Enum("Ordering", rv[2])
            owners = [e for e, vs in self.enums.items() if any(v == rv[2] for v, _ in vs)]
            if len(owners) != 1:
                raise Unsupported("bare variant %s is ambiguous (%s)" % (rv[2], owners))
            return Enum(owners[0], rv[2])
        if k == "variant":
            ty = self.resolve_ty(rv[1], subst)
            return Enum(ty, rv[2], [self.operand(st, fid, o, subst) for o in rv[3]])
        if k == "len":
            v = self.read(st, fid, rv[1])
            return Int(len(v.vals), "usize")
        if k == "repeat":
            raise Unsupported("repeat")
        raise Unsupported("rvalue %r" % (rv,))

    def discriminant(self, v):
        if isinstance(v, Enum):
            head = ty_head_args(v.ty)[0]
            if head == "Option":
                return Int(0 if v.variant == "None" else 1, "isize")
            if head == "Ordering":
                return Int({"Less": -1, "Equal": 0, "Greater": 1}[v.variant], "i8")
            if head == "Result":
                return Int(0 if v.variant == "Ok" else 1, "isize")
            if head in self.enums:
                for name, d in self.enums[head]:
                    if name == v.variant:
                        return Int(d, "isize")
            raise Unsupported("discriminant of %r" % (v,))
        raise Unsupported("discriminant of %r" % (v,))

    def binop(self, op, a, b):
        if isinstance(a, Amount) or isinstance(b, Amount):
            if op in ("Add", "Sub", "Mul", "Div"):
                return self.th.bin(op, a, b)
            if op in ("Eq", "Ne", "Lt", "Le", "Gt", "Ge"):
                return self.th.cmp(op, a, b)
            raise Unsupported("amount binop " + op)
        if isinstance(a, SymInt) or isinstance(b, SymInt):
            if isinstance(a, (Int, SymInt)) and isinstance(b, (Int, SymInt)):
                x = a.term if isinstance(a, SymInt) else z3.IntVal(a.v)
                y = b.term if isinstance(b, SymInt) else z3.IntVal(b.v)
                ty = a.ty
                if op in ("Eq", "Ne", "Lt", "Le", "Gt", "Ge"):
                    return {"Eq": x == y, "Ne": x != y, "Lt": x < y, "Le": x <= y, "Gt": x > y, "Ge": x >= y}[op]
                if op in ("Add", "Sub", "Mul", "AddUnchecked", "SubUnchecked", "MulUnchecked"):
                    return SymInt({"A": x + y, "S": x - y, "M": x * y}[op[0]], ty)
                if op in ("AddWithOverflow", "SubWithOverflow", "MulWithOverflow"):
                    # representation queries are bounded by 18, far from any overflow of the machine type
                    return Tup([SymInt({"A": x + y, "S": x - y, "M": x * y}[op[0]], ty), False])
            raise Unsupported("binop %s on symbolic integer" % op)
        if isinstance(a, Int) and isinstance(b, Int):
            x, y = a.v, b.v
            if op in ("Eq", "Ne", "Lt", "Le", "Gt", "Ge"):
                return {"Eq": x == y, "Ne": x != y, "Lt": x < y, "Le": x <= y, "Gt": x > y, "Ge": x >= y}[op]
            if op in ("Add", "Sub", "Mul", "AddUnchecked", "SubUnchecked", "MulUnchecked"):
                r = {"A": x + y, "S": x - y, "M": x * y}[op[0]]
                return Int(_wrap(r, a.ty), a.ty)
            if op in ("AddWithOverflow", "SubWithOverflow", "MulWithOverflow"):
                r = {"A": x + y, "S": x - y, "M": x * y}[op[0]]
                w = _wrap(r, a.ty)
                return Tup([Int(w, a.ty), w != r])
            if op in ("BitAnd", "BitOr", "BitXor"):
                return Int({"BitAnd": x & y, "BitOr": x | y, "BitXor": x ^ y}[op], a.ty)
            if op == "Div":
                return Int(int(x / y) if y else 0, a.ty)
            if op == "Rem":
                return Int(x - y * int(x / y), a.ty)
        if (isinstance(a, bool) or is_sym(a)) and (isinstance(b, bool) or is_sym(b)):
            if op == "BitAnd":
                return b_and(a, b)
            if op == "BitOr":
                return b_or(a, b)
            if op in ("Eq", "Ne"):
                if isinstance(a, bool) and isinstance(b, bool):
                    return (a == b) == (op == "Eq")
                e = to_z3(a) == to_z3(b)
                return e if op == "Eq" else z3.Not(e)
        if isinstance(a, Enum) and isinstance(b, Enum) and op in ("Eq", "Ne"):
            return (a == b) == (op == "Eq")
        raise Unsupported("binop %s on %r, %r" % (op, a, b))

    # ------------------------------------------------------------------ bodies
    def exec_body(self, st, body, args, subst):
        """-> list of Outcome"""
        self.fns_used.add(body.short)
        fid = self.new_frame(st)
        self.frame_info[fid] = (body, subst)
        fr = st.frames[fid]
        if len(args) != len(body.params):
            raise Unsupported("arity mismatch calling %s" % body.name)
        for (p, _), a in zip(body.params, args):
            fr[p] = a
        outs = []
        work = [(st, 0, 0)]
        while work:
            st, bb, i = work.pop()
            while True:
                self.steps += 1
                if self.steps > MAX_STEPS:
                    raise Unsupported("step budget exhausted")
                block = body.blocks[bb]
                if i >= len(block):
                    raise Unsupported("fell off block bb%d in %s" % (bb, body.name))
                stmt = parse_stmt(block[i])
                k = stmt[0]
                if k == "skip":
                    i += 1
                    continue
                if k == "assign":
                    v = self.rvalue(st, fid, stmt[2], subst)
                    self.write(st, fid, stmt[1], v)
                    i += 1
                    continue
                if k == "goto":
                    bb, i = stmt[1], 0
                    continue
                if k == "return":
                    rv = st.frames[fid].get("_0")
                    if rv is None:
                        rv = self.zst_value(self.resolve_ty(body.ret, subst))
                        if rv is None:
                            rv = UNIT
                    outs.append(Outcome(st, rv))
                    break
                if k == "unreachable":
                    # reachable `unreachable` would be UB; treat as a panic outcome so that it is never silently dropped
                    outs.append(Outcome(st, None, "unreachable reached in %s" % body.short))
                    break
                if k == "resume":
                    break
                if k == "switch":
                    v = self.operand(st, fid, stmt[1], subst)
                    tmap = dict(stmt[2])
                    if is_sym(v):
                        t_true = tmap.get("otherwise") if "1" not in tmap else tmap["1"]
                        t_false = tmap["0"]
                        alts = [(v, t_true), (z3.Not(v), t_false)]
                        live = [(c, t) for c, t in alts if self.feasible(st, c)]
                        if len(live) == 1:
                            st.pc.append(live[0][0])
                            bb, i = live[0][1], 0
                            continue
                        for c, t in live:
                            work.append((st.fork(c), t, 0))
                        if len(work) + len(outs) > MAX_PATHS:
                            raise Unsupported("path budget exhausted in %s" % body.short)
                        break
                    if isinstance(v, bool):
                        iv = 1 if v else 0
                    elif isinstance(v, Int):
                        iv = v.v
                    else:
                        raise Unsupported("switch on %r" % (v,))
                    key = str(iv)
                    if key not in tmap and iv < 0:
                        # switchInt prints negative discriminants as unsigned
                        for bits in (8, 16, 32, 64, 128):
                            if str(iv + (1 << bits)) in tmap:
                                key = str(iv + (1 << bits))
                                break
                    bb, i = tmap.get(key, tmap.get("otherwise")), 0
                    if bb is None:
                        raise Unsupported("switch without target")
                    continue
                if k == "assert":
                    _, negate, op, msg, nxt = stmt
                    v = self.operand(st, fid, op, subst)
                    ok = b_not(v) if negate else v
                    if ok is True:
                        bb, i = nxt, 0
                        continue
                    if ok is False:
                        outs.append(Outcome(st, None, "assert failed: " + msg))
                        break
                    if self.feasible(st, z3.Not(ok)):
                        outs.append(Outcome(st.fork(z3.Not(ok)), None, "assert failed: " + msg))
                    if self.feasible(st, ok):
                        st.pc.append(ok)
                        bb, i = nxt, 0
                        continue
                    break
                if k == "call":
                    _, dest, callee, argops, nxt = stmt
                    argv = [self.operand(st, fid, o, subst) for o in argops]
                    res = self.call(st, callee, argv, subst, caller=body)
                    if len(res) == 1 and not res[0].panic:
                        st = res[0].state
                        if dest is not None:
                            self.write(st, fid, dest, res[0].value)
                        if nxt is None:
                            break
                        bb, i = nxt, 0
                        continue
                    for o in res:
                        if o.panic:
                            outs.append(o)
                        else:
                            if dest is not None:
                                self.write(o.state, fid, dest, o.value)
                            if nxt is not None:
                                work.append((o.state, nxt, 0))
                    if len(work) + len(outs) > MAX_PATHS:
                        raise Unsupported("path budget exhausted in %s" % body.short)
                    break
                if k == "setdiscr":
                    raise Unsupported("SetDiscriminant")
                raise Unsupported("statement kind %s" % k)
        return outs

    # ------------------------------------------------------------------ calls
    def call(self, st, callee, args, subst, caller=None):
        """-> list of Outcome.  `caller`: the body issuing the call; an impl method that calls the
        same method name on the same type with the same parameter types is a wrapper delegating to
        another trait (generated `PartialEq::eq` -> `<Self as HasRefUnit>::eq`), so the caller itself
        is never a candidate."""
        callee = callee.strip()
        self.depth = getattr(self, "depth", 0) + 1
        try:
            if self.depth > 60:
                raise Unsupported("call depth exceeded at " + callee)
            return self._call(st, callee, args, subst, caller)
        finally:
            self.depth -= 1

    def _call(self, st, callee, args, subst, caller):
        m = _TRAIT_CALL.match(callee)
        if m:
            tyraw, trait, targs, meth = m.group(1), m.group(2), m.group(3), m.group(4)
            ty = self.resolve_ty(tyraw, subst)
            trait_last = trait.rsplit("::", 1)[-1]
            argtys = [self.tyof(st, a) for a in args]
            b, binds = self.find_impl(meth, ty, argtys, exclude=caller, trait=trait_last)
            if b is not None:
                return self.exec_body(st, b, args, binds)
            d = self.P.fns.get("%s::%s" % (trait_last, meth))
            if d:
                ov = self.find_override(d[-1], meth, ty, caller, trait_last)
                if ov is not None:
                    return self.exec_body(st, ov, args, {})
                return self.exec_body(st, d[-1], args, {"Self": ty})
            return self.summary(st, ty, trait_last, meth, args, subst, callee)
        # crate-local free function (no impl, no trait): `module::name` or `name`
        plain = re.sub(r"::<.*>$", "", callee)
        if re.match(r"^[\w:]+$", plain):
            last = plain.rsplit("::", 1)[-1]
            cands = [b for b in self.P.by_method.get(last, []) if "<impl at" not in b.name and "{closure" not in b.name
                     and re.match(r"^(?:\w+::)*%s$" % re.escape(last), b.name) and not b.name.split("::")[0][:1].isupper()
                     and len(b.params) == len(args)]
            cands = [b for b in cands if b.name == plain or b.name.endswith("::" + plain) or plain.endswith("::" + b.name) or b.name.rsplit("::", 1)[-1] == plain]
            if len({b.name for b in cands}) == 1:
                return self.exec_body(st, cands[-1], args, {})
        # inherent / free function:  path::<G>::name::<G>
        path = re.sub(r"::<[^<>]*(?:<[^<>]*>[^<>]*)*>$", "", callee)     # drop trailing method generics
        m = re.match(r"^(.*?)(?:::<(.*)>)?::(\w+)$", path)
        if m:
            tybase, targs, meth = m.groups()
            tyfull = tybase + ("<%s>" % targs if targs else "")
            ty = self.resolve_ty(tyfull, subst)
            head = ty_head_args(ty)[0]
            if head not in ("Option", "Result", "bool", "Arguments", "Argument") and not tybase.startswith(("core::", "std::", "alloc::", "fpdec::")):
                argtys = [self.tyof(st, a) for a in args]
                b, binds = self.find_impl(meth, ty, argtys, inherent=True, exclude=caller, trait=None)
                if b is not None:
                    return self.exec_body(st, b, args, binds)
            return self.summary(st, ty, None, meth, args, subst, callee)
        return self.summary(st, None, None, callee, args, subst, callee)

    def find_impl(self, meth, ty, argtys, inherent=False, exclude=None, trait="?"):
        """trait: last path segment of the trait named in the call (None: inherent call, '?': unknown).
        An impl method whose own trait is known (from the expanded source) must belong to that trait."""
        key = (meth, ty, tuple(argtys), inherent, exclude.index if exclude is not None else None, trait)
        if key in self._impl_cache:
            return self._impl_cache[key]
        best = (None, None)
        ty = strip_ref(ty)
        thead = ty_head_args(ty)[0]
        for b in reversed(self.P.by_method.get(meth, [])):
            if "<impl at" not in b.name or "{closure" in b.name:
                continue
            if exclude is not None and (b is exclude or (b.name == exclude.name and b.nparams == exclude.nparams and b.trait == "?")):
                continue
            if trait != "?" and b.trait != "?" and b.trait != trait:
                continue
            if len(b.nparams) != len(argtys):
                continue
            binds = {}
            if not all(self.ty_match(p, a, binds) for p, a in zip(b.nparams, argtys)):
                continue
            # Self filter
            ok = False
            if b.nparams:
                p0 = strip_ref(b.nparams[0])
                if p0 == ty or (ty_head_args(p0)[0] == thead and thead not in GENERICS):
                    ok = True
                    self.ty_match(p0, ty, binds)
            if not ok:
                if b.nret == ty or ty_head_args(b.nret)[0] == thead:
                    ok = True
                    self.ty_match(b.nret, ty, binds)
                elif not b.nparams and re.search(r"\b%s\b" % re.escape(ty), b.nret):
                    ok = True
            if not ok:
                continue
            best = (b, binds)
            break
        self._impl_cache[key] = best
        return best

    def find_override(self, default, meth, ty, caller, trait="?"):
        """an impl method overriding a trait default method: same name, and exactly the default's
        signature with Self := ty (associated types resolved)"""
        key = ("ov", default.index, ty, caller.index if caller is not None else None, trait)
        if key in self._impl_cache:
            return self._impl_cache[key]
        sub = {"Self": ty}
        want_p = [self.resolve_ty(t, sub) for _, t in default.params]
        want_r = self.resolve_ty(default.ret, sub)
        found = None
        for b in reversed(self.P.by_method.get(meth, [])):
            if "<impl at" not in b.name or "{closure" in b.name:
                continue
            if caller is not None and (b is caller or (b.name == caller.name and b.nparams == caller.nparams)):
                continue
            if trait != "?" and b.trait != "?" and b.trait != trait:
                continue
            if b.nparams == want_p and b.nret == want_r:
                if b.trait != "?":
                    found = b
                    break
                # a wrapper of a std trait with the same signature (PartialEq::eq vs HasRefUnit::eq) is not an override
                # of the crate trait unless it does not delegate to it; such wrappers are only ever *callers* here
                if any(("as %s>::%s" % (default.name.split("::")[0], meth)) in l for ls in b.blocks.values() for l in ls):
                    continue
                found = b
                break
        self._impl_cache[key] = found
        return found

    def find_closure(self, cid):
        for name, bs in self.P.fns.items():
            if "{closure#" in name:
                b = bs[-1]
                if b.params and cid in b.params[0][1] and name.count("{closure#") == b.params[0][1].count("{closure@") + name.count("{closure#") - 1:
                    return b
        for name, bs in self.P.fns.items():
            if "{closure#" in name and bs[-1].params and cid in bs[-1].params[0][1]:
                return bs[-1]
        raise Unsupported("closure body %s" % cid)

    def call_closure(self, st, clo, args):
        """args: already in callee form (after the closure itself)"""
        b = self.find_closure(clo.cid)
        p0 = b.params[0][1].strip()
        self_arg = self.temp_ref(st, clo) if p0.startswith("&") else clo
        return self.exec_body(st, b, [self_arg] + list(args), clo.subst)

    def call_bool(self, st, clo, item, by_ref=False):
        """evaluate a predicate closure on &Item without side effects -> bool | z3 Bool
        (Item is &T for a by-reference iterator, so the closure then receives &&T)"""
        s2 = st.fork()
        n0 = len(s2.pc)
        arg = self.temp_ref(s2, item)
        if by_ref:
            arg = self.temp_ref(s2, arg)
        outs = self.call_closure(s2, clo, [arg])
        if any(o.panic for o in outs):
            raise Unsupported("panic inside iterator predicate")
        if len(outs) == 1:
            return outs[0].value
        return b_or(*[b_and(*(list(o.pc[n0:]) + [o.value])) for o in outs])

    # ------------------------------------------------------------------ summaries of the environment
    def _fork_cases(self, st, cases):
        """cases: [(cond, value)] mutually exclusive -> Outcomes (infeasible ones pruned)"""
        outs = []
        live = [(c, v) for c, v in cases if c is not False and self.feasible(st, c)]
        if len(live) == 1:
            c, v = live[0]
            if c is not True:
                st.pc.append(c)
            return [Outcome(st, v)]
        for c, v in live:
            outs.append(Outcome(st.fork(None if c is True else c), v))
        return outs

    def _fork_bool(self, st, b):
        """a boolean result is kept symbolic (switchInt forks later)"""
        return [Outcome(st, b)]

    def summary(self, st, ty, trait, meth, args, subst, raw):
        th = self.th
        th.cur_pc = tuple(st.pc)
        head = ty_head_args(ty)[0] if ty else None
        tag = "%s%s::%s" % (("<%s>" % head) if head else "", (" as " + trait) if trait else "", meth)

        def used(t=tag):
            self.stubs_used.add(t)

        def deref(v):
            return self.load(st, v) if isinstance(v, Ref) else v

        # ---- amount arithmetic / comparison of the amount type itself
        if head == self.AMT and trait in ("Mul", "Div", "Add", "Sub") and len(args) == 2:
            used("<AmountT as %s>::%s" % (trait, meth))
            return [Outcome(st, th.bin(trait, deref(args[0]), deref(args[1])))]
        if head == self.AMT and trait == "Neg":
            used("<AmountT as Neg>::neg")
            return [Outcome(st, th.neg(deref(args[0])))]
        if head == self.AMT and trait == "PartialEq" and meth in ("eq", "ne"):
            used("<AmountT as PartialEq>::%s" % meth)
            return [Outcome(st, th.cmp("Eq" if meth == "eq" else "Ne", deref(args[0]), deref(args[1])))]
        if head == self.AMT and trait == "PartialOrd" and meth in ("lt", "le", "gt", "ge"):
            used("<AmountT as PartialOrd>::%s" % meth)
            return [Outcome(st, th.cmp(meth.capitalize(), deref(args[0]), deref(args[1])))]
        if head == self.AMT and trait == "PartialOrd" and meth == "partial_cmp":
            used("<AmountT as PartialOrd>::partial_cmp")
            a, b = deref(args[0]), deref(args[1])
            oty = "Option<Ordering>"
            cases = [(c, (Enum(oty, "Some", [Enum("Ordering", o)]) if o else Enum(oty, "None"))) for c, o in th.partial_cmp(a, b)]
            return self._fork_cases(st, cases)
        if head == self.AMT and trait == "Clone":
            return [Outcome(st, deref(args[0]))]
        if head == self.AMT and meth == "abs":
            used("AmountT::abs")
            return [Outcome(st, th.abs(deref(args[0])))]
        if head == self.AMT and meth in ("max", "min") and len(args) == 2:
            used("AmountT::" + meth)
            x_, y_ = deref(args[0]), deref(args[1])
            if x_.exact is not None and y_.exact is not None:
                return [Outcome(st, th.const(max(x_.exact, y_.exact) if meth == "max" else min(x_.exact, y_.exact)))]
            c_ = th.cmp("Ge" if meth == "max" else "Le", x_, y_)
            return self._fork_cases(st, [(c_, x_), (b_not(c_), y_)])
        if head == self.AMT and meth in ("round", "floor", "ceil", "trunc", "powi", "is_nan", "is_finite", "is_infinite", "recip", "signum"):
            x_ = deref(args[0])
            if x_.exact is not None:
                import math as _m
                v_ = x_.exact
                used("AmountT::%s on a constant" % meth)
                if meth in ("is_nan", "is_infinite"):
                    return [Outcome(st, False)]
                if meth == "is_finite":
                    return [Outcome(st, True)]
                if meth == "powi":
                    e_ = deref(args[1]).v
                    r_ = (float(v_) ** e_) if self.AMT == "f64" else F(v_) ** e_
                    return [Outcome(st, th.const(r_))]
                if meth == "recip":
                    return [Outcome(st, th.bin("Div", th.const(1.0 if self.AMT == "f64" else F(1)), x_))]
                if meth == "signum":
                    return [Outcome(st, th.const((1.0 if v_ >= 0 else -1.0) if self.AMT == "f64" else F(1 if v_ >= 0 else -1)))]
                f_ = {"round": lambda t: _m.floor(abs(t) + 0.5) * (1 if t >= 0 else -1), "floor": _m.floor, "ceil": _m.ceil, "trunc": _m.trunc}[meth]
                return [Outcome(st, th.const(float(f_(v_)) if self.AMT == "f64" else F(f_(v_))))]
            if meth in ("is_nan", "is_infinite") and th.name in ("T_re64", "T_red"):
                return [Outcome(st, False)]           # the real theories range over finite amounts only
            if meth == "is_finite" and th.name in ("T_re64", "T_red"):
                return [Outcome(st, True)]
        if head == "Decimal" and meth == "new_raw":
            used("Decimal::new_raw")
            return [Outcome(st, th.const_decimal(args[0].v, args[1].v))]
        if head == "Decimal" and meth == "n_frac_digits" and hasattr(th, "nfd"):
            used("Decimal::n_frac_digits (declared digits of constants; any value 0..18 for computed / symbolic amounts)")
            n_ = th.nfd(deref(args[0]))
            return [Outcome(st, Int(n_, "u8") if isinstance(n_, int) else SymInt(n_, "u8"))]
        # ---- direct invocation of a closure value: <closure as Fn*>::call*(&clo, (args,))
        if trait in ("Fn", "FnMut", "FnOnce") and meth in ("call", "call_mut", "call_once") and len(args) == 2:
            clo = deref(args[0])
            tup = args[1]
            if isinstance(clo, Closure) and isinstance(tup, Tup):
                used("closure call (Fn::call)")
                return self.call_closure(st, clo, list(tup.vals))
        # ---- std's provided methods of PartialOrd / PartialEq for types that only define partial_cmp / eq
        #      (documented: a < b iff partial_cmp == Some(Less), a <= b iff Some(Less | Equal), ..., a != b iff !(a == b))
        if trait == "PartialOrd" and meth in ("lt", "le", "gt", "ge") and head != self.AMT and len(args) == 2:
            used("PartialOrd::%s provided by std from partial_cmp" % meth)
            outs = self.call(st, "<%s as PartialOrd>::partial_cmp" % ty, args, subst)
            want = {"lt": ("Less",), "le": ("Less", "Equal"), "gt": ("Greater",), "ge": ("Greater", "Equal")}[meth]
            res = []
            for o in outs:
                if o.panic:
                    res.append(o)
                else:
                    v = o.value
                    res.append(Outcome(o.state, v.variant == "Some" and v.payload[0].variant in want))
            return res
        if trait == "PartialEq" and meth == "ne" and head != self.AMT and len(args) == 2 and not isinstance(deref(args[0]), Str):
            used("PartialEq::ne provided by std from eq")
            outs = self.call(st, "<%s as PartialEq>::eq" % ty, args, subst)
            return [o if o.panic else Outcome(o.state, b_not(o.value)) for o in outs]
        # ---- Clone of Copy values
        if trait == "Clone" and meth == "clone":
            used("Clone::clone (Copy types)")
            return [Outcome(st, deref(args[0]))]
        # ---- concrete machine integers: a few inherent methods, and Range<int> iteration (`for _ in 0..n`)
        if args and isinstance(deref(args[0]), Int) and meth in ("unsigned_abs", "abs", "pow", "wrapping_add", "wrapping_sub", "min", "max", "clone"):
            a0 = deref(args[0])
            used("integer " + meth)
            if meth == "unsigned_abs":
                return [Outcome(st, Int(abs(a0.v), a0.ty.replace("i", "u", 1)))]
            if meth == "abs":
                return [Outcome(st, Int(abs(a0.v), a0.ty))]
            if meth == "clone":
                return [Outcome(st, a0)]
            b0 = deref(args[1])
            if isinstance(b0, Int):
                v_ = {"pow": lambda: a0.v ** b0.v, "wrapping_add": lambda: a0.v + b0.v, "wrapping_sub": lambda: a0.v - b0.v,
                      "min": lambda: min(a0.v, b0.v), "max": lambda: max(a0.v, b0.v)}[meth]()
                return [Outcome(st, Int(_wrap(v_, a0.ty), a0.ty))]
        if args and isinstance(deref(args[0]), Struct) and ty_head_args(deref(args[0]).ty)[0] in ("Range", "RangeInclusive") :
            rg = deref(args[0])
            if meth == "into_iter":
                return [Outcome(st, args[0])]
            if meth == "next" and isinstance(args[0], Ref) and all(isinstance(x, Int) for x in rg.vals[:2]):
                used("Range<int> as Iterator::next")
                lo_, hi_ = rg.vals[0], rg.vals[1]
                incl = ty_head_args(rg.ty)[0] == "RangeInclusive"
                if lo_.v < hi_.v or (incl and lo_.v == hi_.v and not (len(rg.vals) > 2 and rg.vals[2] is True)):
                    vals = list(rg.vals)
                    vals[0] = Int(lo_.v + 1, lo_.ty)
                    self.store(st, args[0], Struct(rg.ty, rg.names, vals))
                    return [Outcome(st, Enum("Option<?>", "Some", [lo_]))]
                return [Outcome(st, Enum("Option<?>", "None"))]
        # ---- core::mem::size_of::<T>() for the types that occur here
        if meth == "size_of" and not args:
            m = re.search(r"size_of::<(.+)>$", raw.strip())
            if m:
                t = self.resolve_ty(m.group(1), subst)
                h = ty_head_args(t)[0]
                if h in self.enums:
                    used("core::mem::size_of (fieldless enum: 0 for a single variant, else 1)")
                    return [Outcome(st, Int(0 if len(self.enums[h]) == 1 else (1 if len(self.enums[h]) <= 256 else 2), "usize"))]
                if t == "f64":
                    return [Outcome(st, Int(8, "usize"))]
        # ---- core::iter::once(x)
        if meth == "once" and len(args) == 1 and ("iter" in raw):
            used("core::iter::once")
            return [Outcome(st, GIter([(True, args[0])], by_ref=False))]
        # ---- slices / iterators
        if meth == "iter" and ty is not None and ("[" in ty or "impl [" in raw):
            used("core::slice::iter")
            arr = deref(args[0])
            if not isinstance(arr, Arr):
                raise Unsupported("slice::iter on %r" % (arr,))
            return [Outcome(st, GIter([(True, x) for x in arr.vals], by_ref=True))]
        if trait == "Iterator" or (trait is None and isinstance(args[0] if args else None, GIter)):
            it = deref(args[0])
            if isinstance(it, GIter):
                return self.iter_summary(st, it, meth, args, used)
        if trait == "IntoIterator" and meth == "into_iter":
            v = args[0]
            if isinstance(v, GIter):
                return [Outcome(st, v)]
            tgt = deref(v)
            if isinstance(tgt, Arr):
                used("IntoIterator::into_iter (array / slice)")
                return [Outcome(st, GIter([(True, x) for x in tgt.vals], by_ref=isinstance(v, Ref)))]
            return [Outcome(st, v)]
        # ---- Option
        if head == "Option":
            v = deref(args[0])
            if meth in ("is_none", "is_some"):
                used("Option::" + meth)
                return [Outcome(st, (v.variant == "None") == (meth == "is_none"))]
            if meth in ("unwrap", "expect"):
                used("Option::" + meth)
                if v.variant == "None":
                    return [Outcome(st, None, "called `Option::%s()` on a `None` value" % meth)]
                return [Outcome(st, v.payload[0])]
            if meth == "unwrap_or":
                used("Option::unwrap_or")
                return [Outcome(st, v.payload[0] if v.variant == "Some" else args[1])]
            if meth in ("copied", "cloned"):
                used("Option::" + meth)
                return [Outcome(st, v if v.variant == "None" else Enum(v.ty, "Some", [deref(v.payload[0])]))]
            if meth == "or":
                used("Option::or")
                return [Outcome(st, v if v.variant == "Some" else deref(args[1]))]
            if meth in ("unwrap_or_else", "or_else"):
                used("Option::" + meth)
                if v.variant == "Some":
                    return [Outcome(st, v.payload[0] if meth == "unwrap_or_else" else v)]
                return self.call_closure(st, args[1], [])
            if meth in ("map", "and_then", "filter", "is_some_and"):
                used("Option::" + meth)
                if v.variant == "None":
                    return [Outcome(st, False if meth == "is_some_and" else v)]
                x = v.payload[0]
                outs = self.call_closure(st, args[1], [self.temp_ref(st, x) if meth == "filter" else x])
                res = []
                for o in outs:
                    if o.panic:
                        res.append(o)
                    elif meth == "map":
                        res.append(Outcome(o.state, Enum("Option<?>", "Some", [o.value])))
                    elif meth in ("and_then", "is_some_and"):
                        res.append(o)
                    else:       # filter
                        if o.value is True:
                            res.append(Outcome(o.state, v))
                        elif o.value is False:
                            res.append(Outcome(o.state, Enum(v.ty, "None")))
                        else:
                            if self.feasible(o.state, o.value):
                                res.append(Outcome(o.state.fork(o.value), v))
                            if self.feasible(o.state, z3.Not(o.value)):
                                res.append(Outcome(o.state.fork(z3.Not(o.value)), Enum(v.ty, "None")))
                return res
        # ---- bool::then_some (the value is already computed)
        if meth == "then_some" and len(args) == 2 and (isinstance(args[0], bool) or is_sym(args[0])):
            used("bool::then_some")
            b, val = args
            oty = "Option<?>"
            if b is True:
                return [Outcome(st, Enum(oty, "Some", [val]))]
            if b is False:
                return [Outcome(st, Enum(oty, "None"))]
            return self._fork_cases(st, [(b, Enum(oty, "Some", [val])), (z3.Not(b), Enum(oty, "None"))])
        # ---- bool::then
        if head == "bool" and meth == "then":
            used("bool::then")
            b, clo = args
            oty = "Option<?>"
            def run_then(s):
                outs = self.call_closure(s, clo, [])
                return [Outcome(o.state, None, o.panic) if o.panic else Outcome(o.state, Enum(oty, "Some", [o.value])) for o in outs]
            if b is True:
                return run_then(st)
            if b is False:
                return [Outcome(st, Enum(oty, "None"))]
            outs = []
            if self.feasible(st, b):
                outs += run_then(st.fork(b))
            if self.feasible(st, z3.Not(b)):
                outs.append(Outcome(st.fork(z3.Not(b)), Enum(oty, "None")))
            return outs
        # ---- strings
        if meth == "to_owned" and isinstance(deref(args[0]), Str):
            used("<str as ToOwned>::to_owned")
            return [Outcome(st, deref(args[0]))]
        if meth in ("eq", "ne") and len(args) == 2:
            a, b = deref(args[0]), deref(args[1])
            while isinstance(a, Ref):
                a = self.load(st, a)
            while isinstance(b, Ref):
                b = self.load(st, b)
            if isinstance(a, Str) and isinstance(b, Str):
                used("str/String PartialEq::eq")
                return [Outcome(st, (a.s == b.s) == (meth == "eq"))]
        if meth in ("eq", "ne") and len(args) == 2 and trait == "PartialEq":
            a, b = deref(args[0]), deref(args[1])
            if isinstance(a, (Enum, Int, Tup)) and isinstance(b, (Enum, Int, Tup)) and _concrete(a) and _concrete(b):
                used("derived PartialEq on concrete enums / tuples (std)")
                return [Outcome(st, (_struct_eq(a, b)) == (meth == "eq"))]
        # ---- concrete strings (symbols, names): the few str / String methods a lookup may use
        if args and isinstance(deref(args[0]), Str):
            s0 = deref(args[0])
            while isinstance(s0, Ref):
                s0 = self.load(st, s0)
            if isinstance(s0, Str):
                if meth == "len":
                    used("str::len")
                    return [Outcome(st, Int(len(s0.s.encode("utf-8")), "usize"))]
                if meth == "chars":
                    used("str::chars")
                    return [Outcome(st, GIter([(True, Int(ord(ch), "char")) for ch in s0.s], by_ref=False))]
                if meth == "bytes":
                    used("str::bytes")
                    return [Outcome(st, GIter([(True, Int(b_, "u8")) for b_ in s0.s.encode("utf-8")], by_ref=False))]
                if meth in ("as_str", "deref", "as_ref", "borrow", "to_string", "clone", "into", "from", "to_owned"):
                    used("String/str identity conversions")
                    return [Outcome(st, s0)]
                if meth in ("eq_ignore_ascii_case", "starts_with", "ends_with", "contains") and len(args) == 2:
                    o1 = deref(args[1])
                    while isinstance(o1, Ref):
                        o1 = self.load(st, o1)
                    if isinstance(o1, Str):
                        used("str::" + meth)
                        a_, b_ = s0.s, o1.s
                        if meth == "eq_ignore_ascii_case":
                            fold = lambda t: "".join(ch.lower() if ch.isascii() else ch for ch in t)
                            return [Outcome(st, fold(a_) == fold(b_))]
                        return [Outcome(st, {"starts_with": a_.startswith(b_), "ends_with": a_.endswith(b_), "contains": b_ in a_}[meth])]
        if meth == "is_empty" and isinstance(deref(args[0]), Str):
            used("String::is_empty")
            return [Outcome(st, deref(args[0]).s == "")]
        # ---- panics and their message plumbing (message not built)
        if meth in ("panic_fmt", "panic", "panic_display", "panic_explicit", "unreachable_display") or raw.endswith("panic_fmt"):
            used("core::panicking::panic_fmt (message not built)")
            return [Outcome(st, None, "explicit panic")]
        if head in ("Arguments", "Argument") or meth in ("new_display", "new_debug", "new_v1", "new_const"):
            used("core::fmt::Arguments construction (opaque)")
            return [Outcome(st, Opaque("fmt"))]
        raise Unsupported("cannot encode callee `%s` (resolved type %s)" % (raw, ty))

    def iter_summary(self, st, it, meth, args, used):
        opt = "Option<?>"
        def item_val(s_, x):
            """the value `next` yields for item x"""
            return self.temp_ref(s_, x) if it.by_ref else x

        if meth == "cloned" or meth == "copied":
            used("Iterator::" + meth)
            return [Outcome(st, GIter(it.items, by_ref=False))]
        if meth == "by_ref":
            return [Outcome(st, args[0])]
        if meth == "filter":
            used("Iterator::filter")
            clo = args[1]
            items = []
            for g, x in it.items:
                p = self.call_bool(st, clo, x, it.by_ref)
                g2 = b_and(g, p)
                if g2 is False:
                    continue
                items.append((g2, x))
            return [Outcome(st, GIter(items, by_ref=it.by_ref))]
        if meth == "next":
            used("Iterator::next")
            ref = args[0]
            cases = []
            neg = []
            for k, (g, x) in enumerate(it.items):
                cases.append((b_and(*(neg + [g])), ("some", x, GIter(it.items[k + 1:], by_ref=it.by_ref))))
                if g is True:
                    break
                neg.append(b_not(g))
            else:
                cases.append((b_and(*neg), ("none", None, GIter((), by_ref=it.by_ref))))
            res = []
            for o in self._fork_cases(st, cases):
                tag, x, rest = o.value
                if isinstance(ref, Ref):
                    self.store(o.state, ref, rest)
                res.append(Outcome(o.state, Enum(opt, "None") if tag == "none" else Enum(opt, "Some", [item_val(o.state, x)])))
            return res
        if meth == "last":
            used("Iterator::last")
            cases = []
            neg = []
            for k in range(len(it.items) - 1, -1, -1):
                g, x = it.items[k]
                cases.append((b_and(*(neg + [g])), ("some", x)))
                if g is True:
                    break
                neg.append(b_not(g))
            else:
                cases.append((b_and(*neg), ("none", None)))
            return [Outcome(o.state, Enum(opt, "None") if o.value[0] == "none" else Enum(opt, "Some", [item_val(o.state, o.value[1])]))
                    for o in self._fork_cases(st, cases)]
        if meth == "find":
            used("Iterator::find")
            src = it
            clo = args[1]
            cases = []
            neg = []
            done = False
            for g, x in src.items:
                p = self.call_bool(st, clo, x, it.by_ref)
                g2 = b_and(g, p)
                if g2 is False:
                    continue
                cases.append((b_and(*(neg + [g2])), ("some", x)))
                if g2 is True:
                    done = True
                    break
                neg.append(b_not(g2))
            if not done:
                cases.append((b_and(*neg), ("none", None)))
            return [Outcome(o.state, Enum(opt, "None") if o.value[0] == "none" else Enum(opt, "Some", [item_val(o.state, o.value[1])]))
                    for o in self._fork_cases(st, cases)]
        if meth == "find_map":
            used("Iterator::find_map")
            clo = args[1]
            cur = [st]
            results = []
            for g, x in it.items:
                if g is not True:
                    raise Unsupported("find_map over guarded items")
                nxt = []
                for s in cur:
                    outs = self.call_closure(s, clo, [self.temp_ref(s, x) if it.by_ref else x])
                    for o in outs:
                        if o.panic:
                            results.append(o)
                        elif o.value.variant == "Some":
                            results.append(Outcome(o.state, Enum(opt, "Some", o.value.payload)))
                        else:
                            nxt.append(o.state)
                cur = nxt
                if not cur:
                    break
            for s in cur:
                results.append(Outcome(s, Enum(opt, "None")))
            return results
        if meth == "rev":
            used("Iterator::rev")
            return [Outcome(st, GIter(tuple(reversed(it.items)), by_ref=it.by_ref))]
        if meth == "chain":
            used("Iterator::chain")
            other = args[1] if not isinstance(args[1], Ref) else self.load(st, args[1])
            if isinstance(other, GIter) and other.by_ref == it.by_ref:
                return [Outcome(st, GIter(it.items + other.items, by_ref=it.by_ref))]
        if meth == "enumerate":
            used("Iterator::enumerate")
            if all(g is True for g, _ in it.items):
                return [Outcome(st, GIter([(True, Tup([Int(k, "usize"), (self.temp_ref(st, x) if it.by_ref else x)])) for k, (_, x) in enumerate(it.items)], by_ref=False))]
        if meth == "map":
            used("Iterator::map")
            items = []
            cur = st
            for g, x in it.items:
                outs = self.call_closure(cur, args[1], [self.temp_ref(cur, x) if it.by_ref else x])
                if len(outs) != 1 or outs[0].panic:
                    raise Unsupported("Iterator::map with a forking or panicking closure")
                cur = outs[0].state
                items.append((g, outs[0].value))
            return [Outcome(cur, GIter(items, by_ref=False))]
        if meth in ("take_while", "skip_while"):
            used("Iterator::" + meth)
            clo = args[1]
            items = []
            prefix = True            # condition: every earlier item satisfied the predicate
            for g, x in it.items:
                p = self.call_bool(st, clo, x, it.by_ref)
                if meth == "take_while":
                    g2 = b_and(g, prefix, p)
                    prefix = b_and(prefix, b_or(b_not(g), p))
                else:
                    g2 = b_and(g, b_not(b_and(prefix, p)))
                    prefix = b_and(prefix, b_or(b_not(g), p))
                if g2 is not False:
                    items.append((g2, x))
            return [Outcome(st, GIter(items, by_ref=it.by_ref))]
        if meth in ("any", "all", "position"):
            used("Iterator::" + meth)
            clo = args[1]
            vals = []
            for g, x in it.items:
                # any/all/position take the item by value (FnMut(Self::Item))
                s2 = st.fork()
                n0 = len(s2.pc)
                outs = self.call_closure(s2, clo, [self.temp_ref(s2, x) if it.by_ref else x])
                if any(o.panic for o in outs):
                    raise Unsupported("panic inside iterator predicate")
                pv = outs[0].value if len(outs) == 1 else b_or(*[b_and(*(list(o.pc[n0:]) + [o.value])) for o in outs])
                vals.append((g, pv))
            if meth == "any":
                return self._fork_bool(st, b_or(*[b_and(g, p) for g, p in vals]))
            if meth == "all":
                return self._fork_bool(st, b_and(*[b_or(b_not(g), p) for g, p in vals]))
            if all(g is True for g, _ in vals):
                cases, neg = [], []
                for k, (g, p) in enumerate(vals):
                    cases.append((b_and(*(neg + [p])), Enum("Option<usize>", "Some", [Int(k, "usize")])))
                    if p is True:
                        break
                    neg.append(b_not(p))
                else:
                    cases.append((b_and(*neg), Enum("Option<usize>", "None")))
                return self._fork_cases(st, cases)
        if meth == "count":
            used("Iterator::count")
            if all(g is True for g, _ in it.items):
                return [Outcome(st, Int(len(it.items), "usize"))]
        raise Unsupported("iterator method %s" % meth)


_TRAIT_CALL = re.compile(r"^<(.+) as ([\w:]+)(<.*>)?>::(\w+)(?:::<.*>)?$", re.S)


def _unescape(s):
    try:
        return bytes(s, "utf-8").decode("unicode_escape").encode("latin-1").decode("utf-8") if "\\" in s else s
    except Exception:
        return s


def _wrap(v, ty):
    m = re.match(r"^([iu])(\d+|size)$", ty)
    if not m:
        return v
    bits = 64 if m.group(2) == "size" else int(m.group(2))
    v &= (1 << bits) - 1
    if m.group(1) == "i" and v >= 1 << (bits - 1):
        v -= 1 << bits
    return v


def _concrete(v):
    if isinstance(v, Enum):
        return all(_concrete(x) for x in v.payload)
    if isinstance(v, Tup):
        return all(_concrete(x) for x in v.vals)
    return isinstance(v, (Int, bool, Str))


def _struct_eq(a, b):
    if isinstance(a, Enum) and isinstance(b, Enum):
        return a.variant == b.variant and len(a.payload) == len(b.payload) and all(_struct_eq(x, y) for x, y in zip(a.payload, b.payload))
    if isinstance(a, Tup) and isinstance(b, Tup):
        return len(a.vals) == len(b.vals) and all(_struct_eq(x, y) for x, y in zip(a.vals, b.vals))
    if isinstance(a, Int) and isinstance(b, Int):
        return a.v == b.v
    if isinstance(a, Str) and isinstance(b, Str):
        return a.s == b.s
    return a == b
