"""Which trait does an impl method in the MIR dump belong to?

The MIR dump names every macro-generated impl item after the same span, so the trait cannot be read
from the MIR.  The macro-expanded source (`-Zunpretty=expanded`, produced anyway for the enum
declarations) lists the impl blocks in the order in which rustc assigns their DefIds, which is also the
order of the bodies in the MIR dump.  `impl_methods` extracts (module path, trait, self type, method
names) per impl block; `assign_traits` walks the impl methods of a module in both listings in lock-step.
"""
import re


def _skip_string(t, i):
    """t[i] == '"' (or start of raw string handled by caller); returns index after the closing quote"""
    n = len(t)
    i += 1
    while i < n:
        c = t[i]
        if c == "\\":
            i += 2
            continue
        if c == '"':
            return i + 1
        i += 1
    return n


def _tokens(t):
    """yield (kind, text, pos) for words and punctuation outside strings / comments / char literals"""
    i, n = 0, len(t)
    while i < n:
        c = t[i]
        if c == "/" and t.startswith("//", i):
            j = t.find("\n", i)
            i = n if j < 0 else j
            continue
        if c == "/" and t.startswith("/*", i):
            j = t.find("*/", i + 2)
            i = n if j < 0 else j + 2
            continue
        if c == '"':
            i = _skip_string(t, i)
            continue
        if c == "r" and re.match(r'r#*"', t[i:i + 6]):
            m = re.match(r'r(#*)"', t[i:])
            close = '"' + m.group(1)
            j = t.find(close, i + len(m.group(0)))
            i = n if j < 0 else j + len(close)
            continue
        if c == "b" and t.startswith('b"', i):
            i = _skip_string(t, i + 1)
            continue
        if c == "'":
            m = re.match(r"'(\\.[^']*|[^'\\])'", t[i:i + 12])
            if m:
                i += len(m.group(0))
                continue
            i += 1          # lifetime tick
            continue
        if c.isalpha() or c == "_":
            j = i + 1
            while j < n and (t[j].isalnum() or t[j] == "_"):
                j += 1
            yield ("w", t[i:j], i)
            i = j
            continue
        if c in "{}();<>":
            yield ("p", c, i)
        i += 1


def impl_methods(text):
    """-> list of dicts {module: 'a::b' | '', trait: str | None, self_ty: str, methods: [names]} in source order"""
    toks = list(_tokens(text))
    out = []
    mods = []           # (name, depth at which the module body was opened)
    depth = 0
    k = 0
    n = len(toks)
    while k < n:
        kind, tx, pos = toks[k]
        if kind == "p" and tx == "{":
            depth += 1
        elif kind == "p" and tx == "}":
            depth -= 1
            while mods and mods[-1][1] > depth:
                mods.pop()
        elif kind == "w" and tx == "mod" and k + 2 < n and toks[k + 1][0] == "w" and toks[k + 2] == ("p", "{", toks[k + 2][2]):
            mods.append((toks[k + 1][1], depth + 1))
            depth += 1
            k += 3
            continue
        elif kind == "w" and tx == "impl":
            # header up to the '{' that opens the body (angle brackets balanced; `->` never occurs in headers we care about)
            j = k + 1
            angle = 0
            while j < n:
                kk, tt, pp = toks[j]
                if kk == "p" and tt == "<":
                    angle += 1
                elif kk == "p" and tt == ">":
                    angle = max(0, angle - 1)
                elif kk == "p" and tt == "{" and angle == 0:
                    break
                elif kk == "p" and tt == ";" and angle == 0:
                    j = None
                    break
                j += 1
            if j is None or j >= n:
                k += 1
                continue
            header = text[pos:toks[j][2]]
            trait, self_ty = _parse_header(header)
            # body
            d = 1
            m = j + 1
            methods = []
            while m < n and d > 0:
                kk, tt, pp = toks[m]
                if kk == "p" and tt == "{":
                    d += 1
                elif kk == "p" and tt == "}":
                    d -= 1
                elif kk == "w" and tt == "fn" and d == 1 and m + 1 < n and toks[m + 1][0] == "w":
                    methods.append(toks[m + 1][1])
                m += 1
            out.append({"module": "::".join(x for x, _ in mods), "trait": trait, "self_ty": self_ty, "methods": methods})
            k = m
            continue
        k += 1
    return out


def _parse_header(h):
    h = re.sub(r"\s+", " ", h.strip())
    h = re.sub(r"^impl\b", "", h).strip()
    if h.startswith("<"):
        d = 0
        for i, c in enumerate(h):
            if c == "<":
                d += 1
            elif c == ">":
                d -= 1
                if d == 0:
                    h = h[i + 1:].strip()
                    break
    h = re.split(r"\bwhere\b", h)[0].strip()
    h = re.sub(r"^(?:const |unsafe |!)", "", h)
    # split at top-level ' for '
    d = 0
    i = 0
    while i < len(h):
        c = h[i]
        if c == "<":
            d += 1
        elif c == ">":
            d -= 1
        elif d == 0 and h.startswith(" for ", i):
            trait = h[:i].strip()
            self_ty = h[i + 5:].strip()
            tname = re.sub(r"<.*$", "", trait).rsplit("::", 1)[-1].strip()
            return tname, self_ty
        i += 1
    return None, h


def assign_traits(program, text, crate):
    """sets body.trait (last path segment of the trait, or None for inherent impls) on the impl methods of `crate`
    in `program` by walking the MIR bodies and the expanded impl methods of each module in lock-step"""
    impls = impl_methods(text)
    by_mod = {}
    for im in impls:
        for m in im["methods"]:
            by_mod.setdefault(im["module"], []).append((m, im["trait"], im["self_ty"]))
    bodies = {}
    for bs in program.fns.values():
        for b in bs:
            if b.crate != crate or "<impl at" not in b.name or "{closure" in b.name:
                continue
            mod = b.name.split("<impl at")[0].rstrip(":")
            bodies.setdefault(mod, []).append(b)
    n_assigned = n_total = 0
    for mod, bl in bodies.items():
        bl.sort(key=lambda b: b.index)
        # const fns are dumped twice in a row: treat consecutive bodies with the same name and signature as one
        seq = []
        for b in bl:
            if seq and seq[-1][0].name == b.name and seq[-1][0].nparams == b.nparams:
                seq[-1].append(b)
            else:
                seq.append([b])
        exp = by_mod.get(mod, [])
        p = 0
        for group in seq:
            meth = re.sub(r"::<.*>$", "", group[0].name).rsplit("::", 1)[-1]
            n_total += 1
            q = p
            while q < len(exp) and exp[q][0] != meth:
                q += 1
            if q < len(exp) and q - p <= 40:
                for b in group:
                    b.trait = exp[q][1]
                    b.impl_self = exp[q][2]
                p = q + 1
                n_assigned += 1
    return n_assigned, n_total
