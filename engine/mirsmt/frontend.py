"""Front end of engine E2: regenerate MIR (and the macro-expanded source, for
enum declarations) from /repo's current working tree, parse it."""
import concurrent.futures as cf
import os
import re
import time

from .. import common
from .mirparse import Program

NIGHTLY = "nightly"
RUSTC_FLAGS = ["-C", "debug-assertions=off", "-C", "overflow-checks=on"]

CATALOGUE_MODULES = ("acceleration", "area", "datathroughput", "datavolume", "duration", "energy", "force", "frequency",
                     "length", "mass", "power", "speed", "temperature", "volume")


def features(backend):
    return "std,doc" + (",fpdec" if backend == "dec" else "")


def _cargo_rustc(manifest, target, feats, unpretty, pkg=None, no_default=True, timeout=1200):
    cmd = ["cargo", "+" + NIGHTLY, "rustc", "--manifest-path", manifest, "--target-dir", target, "--offline", "--lib"]
    if pkg:
        cmd += ["-p", pkg]
    if no_default:
        cmd += ["--no-default-features"]
    if feats:
        cmd += ["--features", feats]
    cmd += ["--", "-Zunpretty=" + unpretty] + RUSTC_FLAGS
    env = common.base_env()
    env.pop("RUSTUP_TOOLCHAIN", None)
    import subprocess
    t0 = time.time()
    p = subprocess.run(cmd, env=env, stdout=subprocess.PIPE, stderr=subprocess.PIPE, text=True, timeout=timeout, errors="replace")
    return p.returncode, p.stdout, p.stderr, time.time() - t0


def parse_enums(expanded):
    """enum name -> [(variant, discriminant)] from -Zunpretty=expanded text"""
    out = {}
    for m in re.finditer(r"\benum (\w+)\s*\{", expanded):
        # body up to the matching brace (string literals of doc attributes skipped)
        i = m.end()
        depth, instr = 1, False
        j = i
        while j < len(expanded) and depth:
            ch = expanded[j]
            if instr:
                if ch == "\\":
                    j += 1
                elif ch == '"':
                    instr = False
            elif ch == '"':
                instr = True
            elif ch == "{":
                depth += 1
            elif ch == "}":
                depth -= 1
            j += 1
        body = expanded[i:j - 1]
        body = re.sub(r'#\[doc\s*=\s*"(?:[^"\\]|\\.)*"\]', "", body, flags=re.S)
        body = re.sub(r"#\[[^\]]*\]", "", body, flags=re.S)
        body = re.sub(r"//[^\n]*", "", body)
        body = re.sub(r"/\*.*?\*/", "", body, flags=re.S)
        variants = []
        nxt = 0
        ok = True
        for v in body.split(","):
            v = v.strip()
            if not v:
                continue
            mm = re.match(r"^(\w+)(?:\s*=\s*(-?\d+))?$", v)
            if not mm:
                ok = False
                break
            if mm.group(2) is not None:
                nxt = int(mm.group(2))
            variants.append((mm.group(1), nxt))
            nxt += 1
        if ok and variants:
            out[m.group(1)] = variants
    return out


class Dump:
    def __init__(self, backend, mir, expanded, secs):
        self.backend = backend
        self.mir = mir
        self.expanded = expanded
        self.secs = secs
        self.enums = parse_enums(expanded)
        self.program = Program()
        self.program.add_dump(mir, "quantities")
        from . import expanded as _exp
        self.traits_assigned = _exp.assign_traits(self.program, expanded, "quantities")


_cache = {}


def touch_lib(crate_dir):
    # cargo re-runs rustc only if something changed; a fresh target dir always compiles
    pass


def dump_repo(backend):
    """MIR + expanded source of the main crate in the given amount back-end."""
    if ("repo", backend) in _cache:
        return _cache[("repo", backend)]
    sc = common.scratch()
    target = sc.dir("mir-" + backend)
    manifest = os.path.join(common.REPO, "Cargo.toml")
    t0 = time.time()
    rc, out, err, dt = _cargo_rustc(manifest, target, features(backend), "mir")
    if rc != 0 or not out.strip():
        raise common.Inconclusive("MIR dump of /repo (%s) failed: %s" % (backend, err[-600:]))
    # second invocation in the same target dir: dependencies are built, only the lib is re-run
    os.utime(os.path.join(common.REPO, "src", "lib.rs")) if False else None
    rc2, out2, err2, dt2 = _cargo_rustc(manifest, sc.dir("exp-" + backend), features(backend), "expanded")
    if rc2 != 0 or not out2.strip():
        raise common.Inconclusive("expanded dump of /repo (%s) failed: %s" % (backend, err2[-600:]))
    d = Dump(backend, out, out2, time.time() - t0)
    _cache[("repo", backend)] = d
    return d


def dump_repo_parallel(backends):
    todo = [b for b in backends if ("repo", b) not in _cache]
    if len(todo) > 1:
        with cf.ThreadPoolExecutor(max_workers=len(todo)) as ex:
            list(ex.map(dump_repo, todo))
    return [dump_repo(b) for b in backends]


def make_crate(name, src, backend, qfeats="std"):
    """write a downstream crate (path dependency on /repo) into the scratch area; -> its directory"""
    import shutil
    sc = common.scratch()
    d = sc.dir("crate-%s-%s" % (name, backend))
    feats = ", ".join('"%s"' % f for f in (qfeats.split(",") + (["fpdec"] if backend == "dec" else [])))
    with open(os.path.join(d, "Cargo.toml"), "w") as f:
        f.write('[package]\nname = "%s"\nversion = "0.0.0"\nedition = "2021"\n\n[dependencies]\n'
                'quantities = { path = "%s", default-features = false, features = [%s] }\nqty-macros = { path = "%s/qty-macros" }\n\n[workspace]\n\n'
                '[lints.rust]\nunexpected_cfgs = { level = "allow" }\n' % (name, common.REPO, feats, common.REPO))
    if os.path.exists(os.path.join(common.REPO, "Cargo.lock")):
        shutil.copy(os.path.join(common.REPO, "Cargo.lock"), os.path.join(d, "Cargo.lock"))
    os.makedirs(os.path.join(d, "src"), exist_ok=True)
    with open(os.path.join(d, "src", "lib.rs"), "w") as f:
        f.write("#![allow(unused, non_snake_case, non_camel_case_types)]\n" + src)
    return d


def dump_crate(name, crate_dir, backend="f64", feats=None, no_default=False, keep_catalogue=False):
    """MIR + expanded source of a downstream crate (astronomical crate, synthetic
    definitions); merged with the generic (non-catalogue) bodies of quantities."""
    key = ("crate", name, backend)
    if key in _cache:
        return _cache[key]
    sc = common.scratch()
    t0 = time.time()
    manifest = os.path.join(crate_dir, "Cargo.toml")
    rc, out, err, dt = _cargo_rustc(manifest, sc.dir("mir-%s-%s" % (name, backend)), feats, "mir", no_default=no_default)
    if rc != 0 or not out.strip():
        raise common.Inconclusive("MIR dump of %s failed: %s" % (name, err[-800:]))
    rc2, out2, err2, dt2 = _cargo_rustc(manifest, sc.dir("exp-%s-%s" % (name, backend)), feats, "expanded", no_default=no_default)
    if rc2 != 0 or not out2.strip():
        raise common.Inconclusive("expanded dump of %s failed: %s" % (name, err2[-800:]))
    base = dump_repo(backend)
    d = Dump.__new__(Dump)
    d.backend = backend
    d.mir = out
    d.expanded = out2
    d.secs = time.time() - t0
    d.enums = dict(base.enums)
    # generic bodies only: drop catalogue modules of the main crate (type names may clash)
    for k in list(d.enums):
        if k.endswith("Unit") and k != "Unit":
            d.enums.pop(k)
    d.enums.update(parse_enums(out2))
    d.program = Program()
    mods = tuple(m + "::" for m in CATALOGUE_MODULES)
    if keep_catalogue:
        d.enums = dict(base.enums)
        d.enums.update(parse_enums(out2))
        d.program.add_dump(base.mir, "quantities")
    else:
        d.program.add_dump(base.mir, "quantities", keep=lambda n: not n.startswith(mods))
    d.program.add_dump(out, name)
    from . import expanded as _exp
    _exp.assign_traits(d.program, base.expanded, "quantities")
    d.traits_assigned = _exp.assign_traits(d.program, out2, name)
    # quantity types defined by the downstream crate itself (for native replay paths)
    own = Program()
    own.add_dump(out, name)
    d.own_types = set()
    for b in own.by_method.get("unit", []):
        if len(b.nparams) == 1 and b.nparams[0].startswith("&"):
            d.own_types.add(b.nparams[0].lstrip("&").strip())
    _cache[key] = d
    return d
