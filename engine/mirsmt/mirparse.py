"""Parser for rustc's textual MIR (`-Zunpretty=mir`).

Only the constructs that occur in the bodies the properties depend on are
understood; anything else raises Unsupported when (and only when) executed.
"""
import re
from functools import lru_cache


class Unsupported(Exception):
    pass


# ---------------------------------------------------------------------------
# helpers

OPEN = "([{<"
CLOSE = ")]}>"


def split_top(s, sep=","):
    """Split at top-level separators (brackets balanced, '->' and string
    literals respected)."""
    out, depth, cur, i, n = [], 0, [], 0, len(s)
    instr = False
    while i < n:
        ch = s[i]
        if instr:
            cur.append(ch)
            if ch == "\\":
                cur.append(s[i + 1])
                i += 2
                continue
            if ch == '"':
                instr = False
            i += 1
            continue
        if ch == '"':
            instr = True
            cur.append(ch)
        elif ch in OPEN:
            depth += 1
            cur.append(ch)
        elif ch in CLOSE:
            if ch == ">" and i > 0 and s[i - 1] in "-=":
                cur.append(ch)          # '->' / '=>'
            else:
                depth -= 1
                cur.append(ch)
        elif ch == sep and depth == 0:
            out.append("".join(cur).strip())
            cur = []
        else:
            cur.append(ch)
        i += 1
    last = "".join(cur).strip()
    if last:
        out.append(last)
    return out


def top_find(s, pat):
    """index of the first occurrence of pat at bracket depth 0, or -1"""
    depth = 0
    i, n = 0, len(s)
    instr = False
    while i < n:
        ch = s[i]
        if instr:
            if ch == "\\":
                i += 2
                continue
            if ch == '"':
                instr = False
        elif ch == '"':
            instr = True
        elif ch in OPEN:
            depth += 1
        elif ch in CLOSE:
            if not (ch == ">" and i > 0 and s[i - 1] in "-="):
                depth -= 1
        elif depth == 0 and s.startswith(pat, i):
            return i
        i += 1
    return -1


def match_close(s, i):
    """index of the bracket closing s[i]"""
    depth = 0
    j = i
    n = len(s)
    instr = False
    while j < n:
        ch = s[j]
        if instr:
            if ch == "\\":
                j += 2
                continue
            if ch == '"':
                instr = False
        elif ch == '"':
            instr = True
        elif ch in OPEN:
            depth += 1
        elif ch in CLOSE:
            if ch == ">" and j > 0 and s[j - 1] in "-=":
                pass
            else:
                depth -= 1
                if depth == 0:
                    return j
        j += 1
    raise Unsupported("unbalanced: " + s)


# ---------------------------------------------------------------------------
# types

_PRIMS = {"f64", "f32", "bool", "usize", "isize", "u8", "u16", "u32", "u64", "u128", "i8", "i16", "i32", "i64", "i128", "str", "char", "()", "!"}


@lru_cache(maxsize=None)
def norm_ty(t):
    """Normalise a printed type: drop lifetimes and module paths."""
    t = t.strip()
    t = re.sub(r"'\w+\s*", "", t)          # lifetimes ('_ , 'a, 'static)
    t = t.replace("<, ", "<").replace("<>", "")
    t = re.sub(r"\s+", " ", t)
    t = t.replace("::<", "<")
    # closures keep their id verbatim
    parts = re.split(r"(\{closure@[^}]*\})", t)
    out = []
    for p in parts:
        if p.startswith("{closure@"):
            out.append(p)
        else:
            out.append(re.sub(r"\b(?:[A-Za-z_][A-Za-z0-9_]*::)+(?=[A-Za-z_\[])", "", p))
    t = "".join(out)
    t = t.replace("::<", "<")
    return t.strip()


def strip_ref(t):
    t = t.strip()
    while t.startswith("&"):
        t = t[1:].strip()
        if t.startswith("mut "):
            t = t[4:].strip()
    return t


def ty_head_args(t):
    """'Rate<A, B>' -> ('Rate', ['A','B'])"""
    t = t.strip()
    i = t.find("<")
    if i <= 0 or not t.endswith(">"):
        return t, []
    return t[:i], split_top(t[i + 1:-1])


def subst_ty(t, subst):
    if not subst:
        return t
    def rep(m):
        w = m.group(0)
        return subst.get(w, w)
    return re.sub(r"\b[A-Za-z_][A-Za-z0-9_]*\b", rep, t)


# ---------------------------------------------------------------------------
# places / operands / rvalues  (parsed once per distinct text)

@lru_cache(maxsize=None)
def parse_place(s):
    s = s.strip()
    if re.match(r"^_\d+$", s):
        return ("local", s)
    if s.endswith("]"):
        # index projection  BASE[IDX]
        depth = 0
        for i in range(len(s) - 1, -1, -1):
            if s[i] == "]":
                depth += 1
            elif s[i] == "[":
                depth -= 1
                if depth == 0:
                    base = parse_place(s[:i])
                    idx = s[i + 1:-1].strip()
                    m = re.match(r"^(\d+) of (\d+)$", idx)
                    if m:
                        return ("cindex", base, int(m.group(1)))
                    return ("index", base, parse_place(idx))
        raise Unsupported("place " + s)
    if s.startswith("(") and s.endswith(")") and match_close(s, 0) == len(s) - 1:
        inner = s[1:-1].strip()
        if inner.startswith("*"):
            return ("deref", parse_place(inner[1:]))
        if inner.startswith("("):
            j = match_close(inner, 0)
            # could be followed by index brackets
            k = j + 1
            while k < len(inner) and inner[k] == "[":
                k = match_close(inner, k) + 1
            base, rest = inner[:k], inner[k:]
        else:
            m = re.match(r"^(_\d+(?:\[[^\]]*\])*)", inner)
            if not m:
                raise Unsupported("place " + s)
            base, rest = m.group(1), inner[m.end():]
        m = re.match(r"^\.(\d+): (.+)$", rest, re.S)
        if m:
            return ("field", parse_place(base), int(m.group(1)), m.group(2))
        m = re.match(r"^ as (\w+)$", rest)
        if m:
            return ("downcast", parse_place(base), m.group(1))
        raise Unsupported("place " + s)
    raise Unsupported("place " + s)


@lru_cache(maxsize=None)
def parse_operand(s):
    s = s.strip()
    s = re.sub(r"^no_retag ", "", s)
    if s.startswith("copy "):
        return ("copy", parse_place(s[5:]))
    if s.startswith("move "):
        return ("move", parse_place(s[5:]))
    if s.startswith("const "):
        return ("const", s[6:].strip())
    raise Unsupported("operand " + s)


BINOPS = {"Add", "Sub", "Mul", "Div", "Rem", "Eq", "Ne", "Lt", "Le", "Gt", "Ge", "BitAnd", "BitOr", "BitXor", "Shl", "Shr",
          "AddWithOverflow", "SubWithOverflow", "MulWithOverflow", "AddUnchecked", "SubUnchecked", "MulUnchecked", "Cmp", "Offset"}
UNOPS = {"Not", "Neg", "PtrMetadata"}


@lru_cache(maxsize=None)
def parse_rvalue(r):
    r = r.strip()
    if r.startswith("no_retag "):
        r = r[9:]
    if r.startswith(("copy ", "move ", "const ")):
        # may be a cast:  OP as TY (Kind)
        k = top_find(r, " as ")
        m = re.match(r"^(.+) \((\w+(?:\(.*\))?)\)$", r[k + 4:], re.S) if k > 0 else None
        if m and not r.startswith("const \""):
            return ("cast", parse_operand(r[:k]), m.group(1), m.group(2))
        return ("use", parse_operand(r))
    m = re.match(r"^&(raw (?:const|mut) |mut |fake (?:shallow |deep )?)?(.+)$", r, re.S)
    if m and not r.startswith("&&"):
        return ("ref", parse_place(m.group(2)))
    m = re.match(r"^(\w+)\((.*)\)$", r, re.S)
    if m and m.group(1) in BINOPS:
        a, b = split_top(m.group(2))
        return ("binop", m.group(1), parse_operand(a), parse_operand(b))
    if m and m.group(1) in UNOPS:
        return ("unop", m.group(1), parse_operand(m.group(2)))
    if m and m.group(1) == "discriminant":
        return ("discr", parse_place(m.group(2)))
    if m and m.group(1) == "Len":
        return ("len", parse_place(m.group(2)))
    if r.startswith("["):
        inner = r[1:match_close(r, 0)]
        # repeat: [op; N]
        parts = split_top(inner, ";")
        if len(parts) == 2:
            return ("repeat", parse_operand(parts[0]), parts[1])
        return ("array", tuple(parse_operand(x) for x in split_top(inner)))
    if r.startswith("(") and match_close(r, 0) == len(r) - 1:
        return ("tuple", tuple(parse_operand(x) for x in split_top(r[1:-1])))
    m = re.match(r"^(\{closure@[^}]*\})(?: \{(.*)\})?$", r, re.S)
    if m:
        fields = []
        if m.group(2) and m.group(2).strip():
            for f in split_top(m.group(2)):
                k, v = f.split(":", 1)
                fields.append((k.strip(), parse_operand(v)))
        return ("closure", m.group(1), tuple(fields))
    # struct aggregate  Path { f: op, .. }
    m = re.match(r"^([^{(]+?) \{(.*)\}$", r, re.S)
    if m:
        fields = []
        if m.group(2).strip():
            for f in split_top(m.group(2)):
                k, v = f.split(":", 1)
                fields.append((k.strip(), parse_operand(v)))
        return ("struct", m.group(1).strip(), tuple(fields))
    # enum variant with payload  Path::Variant(op, ..)
    m = re.match(r"^(.+)::(\w+)\((.*)\)$", r, re.S)
    if m:
        return ("variant", m.group(1), m.group(2), tuple(parse_operand(x) for x in split_top(m.group(3))))
    m = re.match(r"^(.+)::(\w+)$", r, re.S)
    if m:
        return ("variant", m.group(1), m.group(2), ())
    if re.match(r"^\w+$", r):
        return ("variant", "", r, ())       # bare (trimmed-path) unit variant, e.g. `NONE` for SIPrefix::NONE
    raise Unsupported("rvalue " + r)


_SKIP = ("StorageLive(", "StorageDead(", "nop", "FakeRead(", "AscribeUserType(", "PlaceMention(", "Retag(", "Coverage::",
         "ConstEvalCounter", "BackwardIncompatibleDropHint")


@lru_cache(maxsize=None)
def parse_stmt(l):
    """-> tuple describing statement or terminator"""
    if l.startswith(_SKIP):
        return ("skip",)
    if l == "return;":
        return ("return",)
    if l == "unreachable;":
        return ("unreachable",)
    if l.startswith("resume") or l.startswith("terminate") or l.startswith("abort"):
        return ("resume",)
    m = re.match(r"^goto -> bb(\d+);$", l)
    if m:
        return ("goto", int(m.group(1)))
    m = re.match(r"^switchInt\((.+)\) -> \[(.+)\];$", l)
    if m:
        targets = []
        for t in split_top(m.group(2)):
            k, v = t.split(": bb")
            targets.append((k.strip(), int(v)))
        return ("switch", parse_operand(m.group(1)), tuple(targets))
    m = re.match(r"^drop\((.+)\) -> \[return: bb(\d+).*\];$", l)
    if m:
        return ("goto", int(m.group(2)))
    m = re.match(r"^assert\((!?)(.+?), \"(.*)\"(?:, .*)?\) -> \[success: bb(\d+).*\];$", l)
    if m:
        return ("assert", m.group(1) == "!", parse_operand(m.group(2)), m.group(3), int(m.group(4)))
    # calls:  [DEST = ]CALLEE(ARGS) -> [return: bbN, unwind ..] | -> unwind continue | -> bbN
    m = re.match(r"^(.*\)) -> (?:\[return: bb(\d+), unwind[^\]]*\]|unwind \w+(?:\(\w+\))?|bb(\d+));$", l, re.S)
    if m and not l.startswith(("discriminant(", "Deinit(")):
        head, nxt, nxt2 = m.groups()
        dest = None
        k = top_find(head, " = ")
        if k >= 0 and "(" not in head[:k].replace("(*", "").replace("(_", "").replace("((", ""):
            dest, head = head[:k], head[k + 3:]
        # head = CALLEE(ARGS) ; find the '(' matching the final ')'
        depth = 0
        pos = None
        for i in range(len(head) - 1, -1, -1):
            ch = head[i]
            if ch in CLOSE:
                if ch == ">" and i > 0 and head[i - 1] in "-=":
                    continue
                depth += 1
            elif ch in OPEN:
                depth -= 1
                if depth == 0:
                    pos = i
                    break
        callee = head[:pos].strip()
        args = head[pos + 1:-1]
        argv = tuple(parse_operand(x) for x in split_top(args)) if args.strip() else ()
        nb = nxt if nxt is not None else nxt2
        return ("call", parse_place(dest) if dest else None, callee, argv, int(nb) if nb is not None else None)
    m = re.match(r"^discriminant\((.+)\) = (\d+);$", l)
    if m:
        return ("setdiscr", parse_place(m.group(1)), int(m.group(2)))
    m = re.match(r"^Deinit\((.+)\);$", l)
    if m:
        return ("skip",)
    m = re.match(r"^(.+?) = (.+);$", l, re.S)
    if m:
        return ("assign", parse_place(m.group(1)), parse_rvalue(m.group(2)))
    raise Unsupported("statement " + l)


# ---------------------------------------------------------------------------
# bodies


class Body:
    def __init__(self, kind, name, params, ret, lines, crate, index):
        self.kind = kind          # 'fn' | 'const'
        self.name = name
        self.params = params      # [(local, raw type)]
        self.ret = ret            # raw type
        self.crate = crate
        self.index = index        # position in the dump (source order)
        self.trait = "?"          # trait of the impl block ('?' unknown, None inherent) -- set by expanded.assign_traits
        self.impl_self = None
        self.nparams = [norm_ty(t) for _, t in params]
        self.nret = norm_ty(ret)
        self.blocks = {}
        self.locals = {}
        self.value = None         # for one-line consts: the constant text
        cur = None
        for line in lines:
            l = line.strip()
            m = re.match(r"^bb(\d+)(?: \(cleanup\))?: \{$", l)
            if m:
                cur = int(m.group(1))
                self.blocks[cur] = []
                continue
            if cur is None:
                m = re.match(r"^let (?:mut )?(_\d+): (.+);$", l)
                if m:
                    self.locals[m.group(1)] = m.group(2)
                continue
            if l == "}":
                cur = None
                continue
            if l == "" or l.startswith("//"):
                continue
            self.blocks[cur].append(l)
        for p, t in params:
            self.locals[p] = t

    @property
    def short(self):
        return re.sub(r"<impl at ([^>]*?):(\d+):\d+: \d+:\d+>", r"<impl@\1:\2>", self.name)

    def __repr__(self):
        return "<Body %s(%s) -> %s>" % (self.name, ", ".join(self.nparams), self.nret)


class Program:
    def __init__(self):
        self.fns = {}       # name -> [Body]  (const fns appear twice; the last one is used)
        self.consts = {}    # name -> [Body]
        self.by_method = {}  # last path segment -> [Body] (fns)
        self.const_by_last = {}
        self.n = 0

    def add_dump(self, text, crate, keep=None):
        lines = text.split("\n")
        i = 0
        n = len(lines)
        while i < n:
            line = lines[i]
            if line.startswith(("fn ", "const ", "static ")):
                if line.rstrip().endswith("{"):
                    j = i + 1
                    while j < n and lines[j] != "}":
                        j += 1
                    self._add_item(line, lines[i + 1:j], crate, keep)
                    i = j + 1
                    continue
                self._add_item(line, [], crate, keep)
            i += 1

    def _add_item(self, head, lines, crate, keep):
        head = head.rstrip()
        if head.startswith("fn "):
            h = head[3:]
            if not h.endswith("{"):
                return
            h = h[:-1].rstrip()
            # NAME(PARAMS) -> RET
            k = h.rfind(") -> ")
            if k < 0:
                return
            ret = h[k + 5:]
            # find '(' matching h[k]
            depth = 0
            pos = None
            for i in range(k, -1, -1):
                ch = h[i]
                if ch in CLOSE:
                    if ch == ">" and i > 0 and h[i - 1] in "-=":
                        continue
                    depth += 1
                elif ch in OPEN:
                    depth -= 1
                    if depth == 0:
                        pos = i
                        break
            name = h[:pos]
            params = []
            ps = h[pos + 1:k]
            if ps.strip():
                for p in split_top(ps):
                    m = re.match(r"^(_\d+): (.+)$", p, re.S)
                    params.append((m.group(1), m.group(2)))
            if keep and not keep(name):
                return
            b = Body("fn", name, params, ret, lines, crate, self.n)
            self.n += 1
            self.fns.setdefault(name, []).append(b)
            last = re.sub(r"::<.*>$", "", name).rsplit("::", 1)[-1]
            self.by_method.setdefault(last, []).append(b)
            return
        # const / static
        kw, rest = head.split(" ", 1)
        if rest.endswith("= {"):
            decl = rest[:-3].rstrip()
            value = None
        else:
            m = re.match(r"^(.*?) = (.*);$", rest)
            if not m:
                return
            decl, value = m.group(1), m.group(2)
        if ": " not in decl:
            return
        name, ty = decl.rsplit(": ", 1)
        # the type itself may contain ': ' only inside impl spans of the *name*; the split at the
        # last ': ' can cut a type like `[(A, B); 6]`? no ': ' in there.  But names contain
        # '<impl at f.rs:1:1: 2:2>' -- make sure brackets are balanced on the name side
        while name.count("<") != name.count(">") - name.count("->") and ": " in name:
            name, more = name.rsplit(": ", 1)
            ty = more + ": " + ty
        if keep and not keep(name):
            return
        b = Body("const", name, [], ty, lines, crate, self.n)
        b.value = value
        self.n += 1
        self.consts.setdefault(name, []).append(b)
        self.const_by_last.setdefault(name.rsplit("::", 1)[-1], []).append(b)
