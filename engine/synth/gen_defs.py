"""Seeded corpus of well-formed synthetic quantity definitions (C11) with an
independent reading of each declaration (the expected registry).

The reading does not use the macro: names are the identifier with `_` shown as
space, variants are UpperCamel of the identifier, constants UPPER_SNAKE, scales
the exact value of the literal, order = stable sort by literal value with the
reference unit first (declaration order among ties) or by name without
reference unit.
"""
import random
from fractions import Fraction as F

from spec.catalogue import QtySpec, UnitSpec, SI_PREFIXES, PREFIX_EXP

WORDS = ["alpha", "beta", "gamma", "delta", "kilo", "mega", "per", "cent", "total", "flat", "unit", "mark", "grain", "drop", "span", "tick",
         "bolt", "reed", "knot", "pace", "cord", "dram", "peck", "rod", "ell", "hand", "line", "point", "barn", "shed", "north", "west"]
SYMS = ["a", "b", "c", "d", "e", "f", "g", "h", "k", "m", "n", "p", "q", "r", "s", "t", "u", "v", "w", "x", "y", "z", "µ", "\u03bc", "°", "Ω", "ℓ", "ℏ", "²", "³", "/", "·"]


def ident(rnd, used):
    for _ in range(100):
        n = rnd.choice([1, 1, 2, 2, 3])
        ws = []
        for k in range(n):
            w = rnd.choice(WORDS)
            style = rnd.random()
            if k == 0 and style < 0.85 or k > 0 and style < 0.6:
                w = w.capitalize()
            ws.append(w)
        s = "_".join(ws)
        camel = "".join(w.capitalize() for w in ws)
        if camel.lower() not in used:
            used.add(camel.lower())
            return s
    raise RuntimeError("identifier space exhausted")


def symbol(rnd, used, allow_dup=False):
    for _ in range(100):
        s = "".join(rnd.choice(SYMS) for _ in range(rnd.choice([1, 2, 2, 3])))
        if s not in used or allow_dup:
            used.add(s)
            return s
    raise RuntimeError("symbols exhausted")


def literal(rnd, value):
    """a Rust literal (int / float, exponent-free) denoting exactly `value`; returns (text, Fraction)"""
    value = F(value)
    if value.denominator == 1:
        form = rnd.choice(["int", "float0", "floatdot"])
        n = value.numerator
        if form == "int":
            return str(n), value
        if form == "float0":
            return "%d.0" % n, value
        return "%d." % n, value
    # terminating decimal
    d = 0
    v = value
    while v.denominator != 1:
        v *= 10
        d += 1
    s = str(v.numerator).rjust(d + 1, "0")
    text = s[:-d] + "." + s[-d:]
    if rnd.random() < 0.3 and d < 18:
        text += "0"
    return text, value


def scales(rnd, n):
    """n distinct-or-tied positive terminating decimal scales (not 1 unless deliberately tied with the reference unit)"""
    pool = [F(1, 1000), F(1, 100), F(1, 10), F(1, 4), F(1, 2), F(3, 4), F(5, 4), F(2), F(12), F(60), F(100), F(254, 10000), F(3048, 10000),
            F(1000), F(1024), F(3600), F(86400), F(1, 8), F(45359237, 100000000), F(1, 1000000), F(1000000), F(125, 100), F(16), F(1, 16),
            # tiny scales closer together than f64::EPSILON (distinct units must keep distinct scales)
            F(1, 10 ** 18), F(24, 10 ** 18), F(1, 10 ** 15),
            # literals with more significant digits than an f64 round trip preserves (they must reach the decimal back-end unchanged)
            F(159154943091895336, 10 ** 18), F(277777777777777778, 10 ** 18), F(3333333333333333333, 10 ** 18), F(1570796326794896619, 10 ** 18)]
    out = []
    for _ in range(n):
        r = rnd.random()
        if out and r < (0.18 if n < 20 else 0.4):
            out.append(rnd.choice(out))          # tie with another unit
        elif r < 0.25:
            out.append(F(1))                     # tie with the reference unit
        else:
            out.append(rnd.choice(pool))
    return out


class Definition:
    def __init__(self, name, spec, attrs, doc, derived=None):
        self.name = name
        self.spec = spec            # QtySpec (expected registry; units in declaration order)
        self.attrs = attrs          # list of attribute source lines in declaration order (ref_unit first if any)
        self.doc = doc
        self.derived = derived

    def source(self, order=None, name=None):
        attrs = self.attrs if order is None else [self.attrs[i] for i in order]
        head = "#[quantity(%s %s %s)]" % self.derived if self.derived else "#[quantity]"
        return "%s\n%s\n/// %s\npub struct %s {}\n" % (head, "\n".join(attrs), self.doc, name or self.name)


def prefix_for(rnd, scale):
    """an SI prefix consistent with the scale (10^exp) or None"""
    for ident_, _, _, e in SI_PREFIXES:
        if F(10) ** e == scale and ident_ != "NONE":
            return ident_ if rnd.random() < 0.8 else None
    return None


def make_definition(rnd, name, kind):
    used_id, used_sym = set(), set()
    if kind == "single":
        i = ident(rnd, used_id)
        if "_" not in i and rnd.random() < 0.7:
            i = i + "_" + rnd.choice(WORDS)
        s = symbol(rnd, used_sym)
        doc = rnd.random() < 0.5
        attrs = ['#[unit(%s, "%s"%s)]' % (i, s, ', "the only unit"' if doc else "")]
        spec = QtySpec("crate", "corpus::" + name.lower(), name, None, [UnitSpec(i, s, None, None)])
        return Definition(name, spec, attrs, "single-unit quantity " + name)
    if kind == "noref":
        n = rnd.randint(2, 6)
        us, attrs = [], []
        # identifiers whose name order (ASCII, '_' shown as space) differs from the order of their UpperCamel variants
        w0 = rnd.choice(WORDS).capitalize()
        forced = ["%s_per_%s" % (w0, rnd.choice(WORDS).capitalize()), "%s_Total" % w0, rnd.choice(WORDS)]
        for f_ in forced:
            used_id.add("".join(x.capitalize() for x in f_.split("_")).lower())
        for k_ in range(n + len(forced)):
            i = forced[k_ - n] if k_ >= n else ident(rnd, used_id)
            s = symbol(rnd, used_sym, allow_dup=rnd.random() < 0.1)
            us.append(UnitSpec(i, s, None, None))
            attrs.append('#[unit(%s, "%s"%s)]' % (i, s, ', "doc of %s"' % i if rnd.random() < 0.4 else ""))
        return Definition(name, QtySpec("crate", "corpus::" + name.lower(), name, None, us), attrs, "quantity without reference unit " + name)
    # with reference unit ("big": more than 20 units, so that an unstable sort would show; many ties, declared unsorted)
    n = rnd.randint(1, 8) if kind != "big" else rnd.randint(21, 25)
    ref_i = ident(rnd, used_id)
    ref_s = symbol(rnd, used_sym)
    si = rnd.random() < 0.6
    ref_attr = '#[ref_unit(%s, "%s"%s%s)]' % (ref_i, ref_s, ", NONE" if si else "", ', "reference unit"' if rnd.random() < 0.5 else "")
    us = [UnitSpec(ref_i, ref_s, "NONE" if si else None, F(1))]
    attrs = [ref_attr]
    scs = scales(rnd, n)
    if name.endswith("4") and len(scs) >= 2:
        scs[0], scs[1] = F(1, 10 ** 18), F(24, 10 ** 18)
    if name.endswith("0") or name in ("SynBig", "SynQuot"):
        scs[-1] = F(1)              # an alias of the reference unit (scale literally 1), see the twin order in corpus()
    if name.endswith("0") or name in ("SynProd",):
        scs[rnd.randrange(len(scs))] = rnd.choice([F(159154943091895336, 10 ** 18), F(277777777777777778, 10 ** 18), F(1570796326794896619, 10 ** 18)])
    for k_sc, sc in enumerate(scs):
        i = ident(rnd, used_id)
        s = symbol(rnd, used_sym, allow_dup=rnd.random() < 0.08)
        if k_sc == 0 and (name.endswith("0") or name == "SynBig"):
            s = "\u03bc" + s          # Greek mu (not the micro sign U+00B5): declared symbols are matched byte for byte
        text, val = literal(rnd, sc)
        pf = prefix_for(rnd, val) if (si or rnd.random() < 0.5) else None     # prefixed units are legal under a reference unit without prefix
        us.append(UnitSpec(i, s, pf, val))
        attrs.append('#[unit(%s, "%s"%s, %s%s)]' % (i, s, (", " + pf) if pf else "", text, ', "%s of the reference"' % text if rnd.random() < 0.4 else ""))
    return Definition(name, QtySpec("crate", "corpus::" + name.lower(), name, ref_i, us), attrs, "quantity with reference unit " + name)


def corpus(seed, k):
    """k definitions (+ a permuted twin of each, + derived definitions over the first two with reference unit)"""
    rnd = random.Random(1000003 * seed + 17)
    defs = []
    kinds = ["ref", "ref", "noref", "single", "ref", "ref", "noref", "ref"]
    for j in range(k):
        kind = kinds[j % len(kinds)] if j >= 3 else ["ref", "noref", "single"][j] if k >= 3 else "ref"
        defs.append(make_definition(rnd, "Syn%d" % j, kind))
    defs.append(make_definition(rnd, "SynBig", "big"))
    twins = []
    for d in defs:
        order = list(range(len(d.attrs)))
        rnd.shuffle(order)
        # a unit tied with the reference unit declared *above* #[ref_unit]: the reference unit still comes first
        alias = [i for i, u in enumerate(d.spec.units) if d.spec.ref is not None and i > 0 and u.scale == 1]
        if alias and order.index(0) < min(order.index(a) for a in alias):
            p0, p1 = order.index(0), order.index(alias[0])
            order[p0], order[p1] = order[p1], order[p0]
        twins.append((d, order))
    refs = [d for d in defs if d.spec.ref is not None and len(d.spec.units) > 1]
    derived = []
    if len(refs) >= 2:
        a, b = refs[0], refs[1]
        for op, nm in (("*", "SynProd"), ("/", "SynQuot")):
            dd = make_definition(rnd, nm, "ref")
            if len(dd.spec.units) < 2:
                dd = make_definition(rnd, nm, "ref")
            dd.derived = (a.name, op, b.name)
            dd.spec.derived = (a.name, op, b.name)
            derived.append(dd)
    return defs, twins, derived


def twin_spec(d, order, name):
    """expected registry of the permuted twin: same units, declaration order permuted"""
    us = [d.spec.units[i] for i in order]
    return QtySpec("crate", "corpus::" + name.lower(), name, d.spec.ref, us, d.spec.derived)


def module_source(defs, twins, derived):
    """one module per definition (unit constants of different definitions may collide)"""
    s = "pub mod corpus {\n"

    def mod(name, src, uses=""):
        body = "\n".join("        " + l for l in src.split("\n"))
        return "    pub mod %s {\n        use quantities::prelude::*;\n%s%s\n    }\n" % (name.lower(), uses, body)
    for d in defs:
        s += mod(d.name, d.source())
    for d, order in twins:
        s += mod(d.name + "P", d.source(order, d.name + "P"))
    for d in derived:
        a, _, b = d.derived
        uses = "".join("        use super::%s::%s;\n" % (x.lower(), x) for x in sorted({a, b}))
        s += mod(d.name, d.source(), uses)
    s += "}\n"
    return s
