"""./check replay <file>: re-run a recorded counterexample against the real
build of /repo's current tree.  Exit 1 (and a VIOLATION line) if it still
violates the property, 0 if it no longer does, 2 if it cannot be replayed."""
import importlib
import json
import os

from . import common
from .replay import gen as rgen


def replay(path):
    art = json.load(open(path))
    if art.get("engine") == "kani concrete playback":
        return replay_kani(art, path)
    prop = art["property"]
    case = art["case"]
    mod = importlib.import_module("props." + prop)
    be = case["backend"]
    # scales reported by the current code are needed by the oracle
    from .mirsmt import frontend, pool as mpool
    frontend.dump_repo(be)
    pool = mpool.Pool(jobs=1)
    try:
        desc = pool.describe(be)
    finally:
        pool.close()
    results = []
    for release in (False, True):
        out = rgen.ReplayCrate(be, name="replaycmd-%s-%s" % (be, "rel" if release else "dev")).run([case], release=release)[0]
        bad, text = mod.oracle(case, out, desc["scales"])
        print("%s profile: native output %s -> %s (%s)" % ("release" if release else "dev", out, "VIOLATES" if bad else "ok", text))
        results.append(bool(bad))
    if any(results):
        print("VIOLATION property=%s replay=%s" % (prop, os.path.abspath(path)))
        return 1
    return 0


def replay_kani(art, path):
    from .kani.runner import KaniCrate, Harness
    import re
    kc = KaniCrate("replay-" + art["crate"], art.get("backend", "f64"), astro=art.get("astro", False), extra_src=art.get("prelude", ""))
    kc.write()
    body = "#![allow(unused, non_snake_case, non_upper_case_globals, clippy::all)]\nuse quantities::prelude::*;\n"
    body += art.get("prelude", "") + "\n#[cfg(kani)]\nmod h {\n    use super::*;\n"
    body += "\n".join("    " + l for l in (art["harness_source"] + "\n" + art["playback_test"]).split("\n")) + "\n}\n"
    open(os.path.join(kc.dir, "src", "lib.rs"), "w").write(body)
    m = re.search(r"fn (kani_concrete_playback_\w+)\(", art["playback_test"])
    if not m:
        print("no playback test recorded")
        return 2
    rc, out, dt = common.run(["cargo", "kani", "playback", "-Z", "concrete-playback", "--", m.group(1)], cwd=kc.dir, env=common.base_env(), timeout=1200)
    print(out[-2500:])
    if "test result: FAILED" in out:
        print("VIOLATION property=%s replay=%s" % (art.get("property", "?"), os.path.abspath(path)))
        return 1
    if "test result: ok" in out:
        return 0
    return 2
