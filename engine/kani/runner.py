"""Engine E1: generated Kani harness crates, built from /repo's working tree
(path dependency, macro re-expanded on every run), one CBMC run per harness.

A harness is described by `Harness`; the runner parses Kani's regular output
into per-check verdicts and applies the expectation:

  expect = "pass"      VERIFICATION SUCCESSFUL, every kani::cover! SATISFIED
  expect = "fail"      canary: VERIFICATION FAILED (reachability witness)
  expect = "panic"     must-panic harness: at least one FAILURE, every FAILURE
                       is a Rust panic located in `panic_file`:`panic_lines`,
                       and the cover named "returned" is UNREACHABLE /
                       UNSATISFIABLE (the call never returns)
Timeout / out-of-memory / Status: ERROR  => inconclusive, never success.
"""
import concurrent.futures as cf
import os
import re
import shutil
import time

from .. import common

KANI_FLAGS = ["--no-overflow-checks"]


class Harness:
    def __init__(self, name, code, expect="pass", unwind=None, key=None, sample=None,
                 panic_file=None, panic_lines=None, timeout=None, symbolic=True, covers=None, stubs=None):
        self.name = name
        self.code = code            # Rust source of the fn body (without attributes / signature)
        self.expect = expect
        self.unwind = unwind
        self.key = key or name
        self.sample = sample
        self.panic_file = panic_file
        self.panic_lines = panic_lines
        self.timeout = timeout
        self.symbolic = symbolic
        self.covers = covers        # expected number of satisfied covers (None = all present ones)
        self.stubs = stubs or []

    def render(self):
        attrs = ["#[kani::proof]"]
        if self.unwind is not None:
            attrs.append("#[kani::unwind(%d)]" % self.unwind)
        for a, b in self.stubs:
            attrs.append("#[kani::stub(%s, %s)]" % (a, b))
        return "%s\nfn %s() {\n%s\n}\n" % ("\n".join(attrs), self.name, self.code)


class Result:
    def __init__(self):
        self.status = None       # SUCCESSFUL / FAILED / TIMEOUT / ERROR
        self.failed = []         # (description, location)
        self.covers = []         # (description, status)
        self.checks = 0
        self.time = 0.0
        self.log = ""
        self.unwind_fail = False


_CHECK_RE = re.compile(r"Check (\d+): ([^\n]+)\n\s+- Status: (\S+)\n\s+- Description: \"(.*?)\"\n\s+- Location: (.*?)\n", re.S)


def parse_output(out):
    r = Result()
    for m in _CHECK_RE.finditer(out):
        _, cid, status, desc, loc = m.groups()
        r.checks += 1
        if ".cover." in cid or status in ("SATISFIED", "UNSATISFIABLE", "UNREACHABLE") and "cover" in cid:
            r.covers.append((desc, status))
            continue
        if status == "FAILURE":
            r.failed.append((desc, loc.strip()))
            if "unwinding assertion" in desc:
                r.unwind_fail = True
        elif status in ("ERROR",):
            r.status = "ERROR"
    m = re.search(r"VERIFICATION:- (\w+)", out)
    if m and r.status is None:
        r.status = m.group(1)
    if "Status: ERROR" in out or "CBMC failed" in out or "out of memory" in out.lower():
        r.status = "ERROR"
    m = re.search(r"Verification Time: ([\d.]+)s", out)
    if m:
        r.time = float(m.group(1))
    return r


class KaniCrate:
    def __init__(self, name, backend="f64", astro=False, extra_src="", extra_mods=None):
        self.name = name
        self.backend = backend
        self.astro = astro
        self.sc = common.scratch()
        self.dir = self.sc.dir("kani-" + name)
        self.target = self.sc.dir("kani-" + name + "-target")
        self.harnesses = []
        self.prelude = extra_src
        self.built = False
        self.build_log = ""
        self.build_s = 0.0

    def add(self, h):
        self.harnesses.append(h)
        return h

    def write(self):
        feats = '"std", "doc"' + (', "fpdec"' if self.backend == "dec" else "")
        deps = 'quantities = { path = "%s", default-features = false, features = [%s] }\n' % (common.REPO, feats)
        deps += 'qty-macros = { path = "%s/qty-macros" }\n' % common.REPO
        if self.astro:
            deps += 'astronomical-quantities = { path = "%s/astronimical_quantities" }\n' % common.REPO
        if self.backend == "dec":
            deps += 'fpdec = "0.11"\n'
        with open(os.path.join(self.dir, "Cargo.toml"), "w") as f:
            f.write('[package]\nname = "kani_%s"\nversion = "0.0.0"\nedition = "2021"\n\n[dependencies]\n%s\n[workspace]\n\n'
                    '[lints.rust]\nunexpected_cfgs = { level = "allow" }\n' % (self.name.replace("-", "_"), deps))
        if os.path.exists(os.path.join(common.REPO, "Cargo.lock")):
            shutil.copy(os.path.join(common.REPO, "Cargo.lock"), os.path.join(self.dir, "Cargo.lock"))
        os.makedirs(os.path.join(self.dir, "src"), exist_ok=True)
        body = "#![allow(unused, non_snake_case, non_upper_case_globals, clippy::all)]\n"
        body += "use quantities::prelude::*;\n"
        body += self.prelude + "\n"
        body += "#[cfg(kani)]\nmod h {\n    use super::*;\n"
        for h in self.harnesses:
            body += "\n".join("    " + l for l in h.render().split("\n")) + "\n"
        body += "}\n"
        with open(os.path.join(self.dir, "src", "lib.rs"), "w") as f:
            f.write(body)

    def build(self, timeout=1500):
        self.write()
        cmd = ["cargo", "kani", "--only-codegen", "--target-dir", self.target] + KANI_FLAGS
        rc, out, dt = common.run(cmd, cwd=self.dir, env=common.base_env(), timeout=timeout,
                                 log=os.path.join(self.dir, "build.log"))
        self.build_log = out
        self.build_s = dt
        self.built = rc == 0
        return self.built

    def run_one(self, h, timeout, mem_gb):
        if getattr(self, "deadline", None) and time.time() > self.deadline:
            r = Result()
            r.status = "SKIPPED"
            r.wall = 0
            return r
        cmd = ["cargo", "kani", "--target-dir", self.target, "--exact", "--harness", "h::" + h.name] + KANI_FLAGS
        rc, out, dt = common.run(cmd, cwd=self.dir, env=common.base_env(), timeout=h.timeout or timeout, mem_gb=mem_gb,
                                 log=os.path.join(self.dir, h.name + ".log"))
        r = parse_output(out)
        r.log = out
        r.wall = dt
        if rc == -9:
            r.status = "TIMEOUT"
        elif r.status is None:
            r.status = "ERROR"
        return r

    def run(self, report, timeout=600, mem_gb=12, jobs=None):
        """Build, run every harness, apply expectations, record into report.
        Returns dict name -> Result."""
        t0 = time.time()
        if not self.build():
            msg = [l for l in self.build_log.split("\n") if l.startswith("error")][:5]
            report.inconcl("Kani harness crate %s failed to build against /repo: %s" % (self.name, " | ".join(msg) or self.build_log[-400:]))
            report.time_engine("kani_build", time.time() - t0)
            return {}
        report.time_engine("kani_build", self.build_s)
        jobs = jobs or max(1, min(8, common.ncpu() // 2))
        if os.environ.get("VERIF_KANI_TIMEOUT"):
            timeout = min(timeout, int(os.environ["VERIF_KANI_TIMEOUT"]))
            for h in self.harnesses:
                if h.timeout:
                    h.timeout = min(h.timeout, timeout)
        results = {}
        t1 = time.time()
        # wall budget of the CBMC phase: harnesses not started by then are skipped (inconclusive), so that a change which
        # slows the solver down cannot stretch a quick run to hours
        budget = int(os.environ.get("VERIF_KANI_BUDGET", "2400" if os.environ.get("VERIF_TIER") != "thorough" else "14400"))
        self.deadline = t1 + budget
        with cf.ThreadPoolExecutor(max_workers=jobs) as ex:
            futs = {ex.submit(self.run_one, h, timeout, mem_gb): h for h in self.harnesses}
            for fu in cf.as_completed(futs):
                h = futs[fu]
                results[h.name] = fu.result()
        report.time_engine("kani_cbmc", time.time() - t1)
        for h in self.harnesses:
            self.judge(report, h, results[h.name])
        return results

    # ------------------------------------------------------------------
    def judge(self, report, h, r):
        report.evaluations += max(1, r.checks)
        report.solver_s += r.time
        report.functions.add("kani:%s::%s" % (self.name, h.name))
        sample = h.sample or {"harness": h.name, "expect": h.expect, "verdict": r.status, "checks": r.checks,
                              "covers": r.covers[:4], "cbmc_s": round(r.time, 2)}
        if r.status == "SKIPPED":
            report.oblig(h.key, False, h.symbolic, None)
            report.inconcl("harness %s::%s not run: the time budget of the solver phase was used up" % (self.name, h.name))
            return
        if r.status in ("TIMEOUT", "ERROR") or r.status is None:
            report.oblig(h.key, False, h.symbolic, sample)
            report.inconcl("harness %s::%s: %s after %.0fs (no verdict)" % (self.name, h.name, r.status, getattr(r, "wall", 0)))
            return
        if r.unwind_fail:
            report.oblig(h.key, False, h.symbolic, sample)
            report.inconcl("harness %s::%s: unwinding assertion failed (bound too small for the current code)" % (self.name, h.name))
            return
        if h.expect == "fail":
            ok = r.status == "FAILED"
            report.vacuity.append("canary %s: %s" % (h.name, r.status))
            if not ok:
                report.inconcl("canary harness %s did not fail (harness is vacuous?)" % h.name)
            report.oblig(h.key, ok, False, None)
            return
        if h.expect == "pass":
            sat = [c for c in r.covers if c[1] == "SATISFIED"]
            unsat = [c for c in r.covers if c[1] != "SATISFIED"]
            if r.status == "SUCCESSFUL" and not unsat:
                report.oblig(h.key, True, h.symbolic, sample)
                if r.covers:
                    report.vacuity.append("%s: %d/%d covers satisfied" % (h.name, len(sat), len(r.covers)))
                return
            if r.status == "SUCCESSFUL" and unsat:
                report.oblig(h.key, False, h.symbolic, sample)
                report.inconcl("harness %s: cover not satisfied (vacuous): %s" % (h.name, unsat[:3]))
                return
            # FAILED: candidate violation, needs replay by caller
            report.oblig(h.key, False, h.symbolic, sample)
            h.failed = r.failed
            report.extra.setdefault("kani_failures", []).append({"harness": h.name, "failed": r.failed[:6]})
            report.pending_kani = getattr(report, "pending_kani", []) + [(self, h, r)]
            return
        if h.expect == "panic":
            returned = [c for c in r.covers if c[0] == "returned"]
            ret_unreach = bool(returned) and all(c[1] in ("UNREACHABLE", "UNSATISFIABLE") for c in returned)
            good_site = bool(r.failed)
            for desc, loc in r.failed:
                m = re.search(r"([^\s:]+\.rs):(\d+):\d+", loc)
                if not m:
                    good_site = False
                    continue
                f, line = m.group(1), int(m.group(2))
                if not (f.endswith(h.panic_file) and h.panic_lines[0] <= line <= h.panic_lines[1]):
                    good_site = False
            ok = r.status == "FAILED" and ret_unreach and good_site
            report.oblig(h.key, ok, h.symbolic, sample)
            if ok:
                report.vacuity.append("%s: panic site %s reached, return unreachable" % (h.name, r.failed[0][1][-60:]))
            else:
                h.failed = r.failed
                report.pending_kani = getattr(report, "pending_kani", []) + [(self, h, r)]
            return
        raise ValueError(h.expect)


def rust_str(s):
    out = '"'
    for ch in s:
        if ch == '"' or ch == "\\":
            out += "\\" + ch
        elif 32 <= ord(ch) < 127:
            out += ch
        else:
            out += "\\u{%x}" % ord(ch)
    return out + '"'


def confirm_failures(report, native_confirm=None):
    """Replay every failed 'pass' harness natively through Kani's concrete
    playback (the harness body runs as an ordinary Rust test against the real
    crate with the solver's values).  Only a reproducing counterexample is a
    VIOLATION; a non-reproducing one is inconclusive (exit 2).
    Must-panic mismatches go to `native_confirm(crate, harness, result)` which
    returns (reproduced: bool, replay_obj) or None."""
    pend = getattr(report, "pending_kani", [])
    report.pending_kani = []
    replayed = 0
    max_replays = int(os.environ.get("VERIF_MAX_PLAYBACKS", "5"))
    for crate, h, r in pend:
        t0 = time.time()
        if h.expect != "panic" and replayed >= max_replays:
            if report.violations:
                report.notes.append("harness %s also failed (%s); not replayed natively (replay budget), %d counterexamples of this run already reproduced"
                                    % (h.name, "; ".join(d for d, _ in r.failed[:2]), len(report.violations)))
            else:
                report.inconcl("harness %s failed but was not replayed (replay budget exhausted without a reproducing counterexample)" % h.name)
            continue
        if h.expect != "panic":
            replayed += 1
        if h.expect == "panic":
            res = native_confirm(crate, h, r) if native_confirm else None
            if res is None:
                report.inconcl("must-panic harness %s mismatched (%s; failed=%s) and no native confirmation is available"
                               % (h.name, r.status, r.failed[:2]))
                continue
            ok, obj = res
            if ok:
                p = common.write_replay(report.prop, "%s_%s" % (crate.name, h.name), obj)
                report.violation(h.key, "must-panic expectation broken in %s: %s" % (h.name, obj.get("what", "")), p)
            else:
                report.inconcl("must-panic mismatch of %s did not reproduce natively" % h.name)
            continue
        cmd = ["cargo", "kani", "--target-dir", crate.target, "--exact", "--harness", "h::" + h.name,
               "-Z", "concrete-playback", "--concrete-playback=inplace"] + KANI_FLAGS
        for attempt in range(2):
            rc, out, dt = common.run(cmd, cwd=crate.dir, env=common.base_env(), timeout=max(h.timeout or 0, 900))
            src = open(os.path.join(crate.dir, "src", "lib.rs")).read()
            if ("kani_concrete_playback_%s_" % h.name) in src:
                break
        tests = []
        for m in re.finditer(r"/// Check for `(\w+)`: [^\n]*\n(?:\s*///[^\n]*\n|\s*\n)*\s*#\[test\]\s*fn (kani_concrete_playback_%s_\d+)\(" % re.escape(h.name), src):
            if m.group(1) != "cover":
                tests.append(m.group(2))
        if not tests:
            report.inconcl("harness %s failed (%s) but Kani produced no concrete playback" % (h.name, r.failed[:2]))
            continue
        cmd = ["cargo", "kani", "playback", "-Z", "concrete-playback", "--", tests[0]]
        rc2, out2, dt2 = common.run(cmd, cwd=crate.dir, env=common.base_env(), timeout=900)
        reproduced = ("test result: FAILED" in out2) and (tests[0] in out2)
        report.time_engine("native_replay", time.time() - t0)
        m = None
        for mm in re.finditer(r"(/// Test generated for harness.*?\n    \}\n)", src, re.S):
            if tests[0] in mm.group(1):
                m = mm
                break
        art = {
            "engine": "kani concrete playback", "property": report.prop, "prelude": crate.prelude, "astro": crate.astro,
            "harness": h.name, "crate": crate.name, "backend": crate.backend,
            "failed_checks": r.failed[:6],
            "harness_source": h.render(),
            "playback_test": m.group(1) if m else "",
            "native_result": "reproduced" if reproduced else "not reproduced",
            "native_log_tail": out2[-3000:],
            "how_to_replay": "./check replay <this file>  (regenerates the harness crate from /repo, runs the playback test natively)",
            "key": h.key,
        }
        if reproduced:
            p = common.write_replay(report.prop, "%s_%s" % (crate.name, h.name), art)
            desc = "; ".join("%s @ %s" % (d, l.split(" in function")[0][-50:]) for d, l in r.failed[:3])
            report.violation(h.key, "%s: %s" % (h.name, desc), p)
        else:
            report.inconcl("counterexample of harness %s did not reproduce natively (encoding or stub wrong?)" % h.name)
