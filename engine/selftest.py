"""setup_cmd: verify that the offline tooling the checks need is present.
Nothing is built here: every check rebuilds what it needs from /repo."""
import shutil
import subprocess
import sys


def main():
    ok = True
    try:
        import z3
        print("z3 python api", z3.get_version_string())
    except Exception as e:
        print("FAIL: z3 python api:", e)
        ok = False
    for tool in ("cargo", "kani", "cbmc", "z3"):
        p = shutil.which(tool)
        print("%-6s %s" % (tool, p))
        ok = ok and p is not None
    for cmd in (["cargo", "kani", "--version"], ["cargo", "+nightly", "--version"]):
        try:
            out = subprocess.run(cmd, stdout=subprocess.PIPE, stderr=subprocess.STDOUT, text=True, timeout=120).stdout.strip().split("\n")[0]
            print(" ".join(cmd), "->", out)
        except Exception as e:
            print("FAIL:", cmd, e)
            ok = False
    # tiny end-to-end sanity of the SMT layer
    from engine.mirsmt import theories as T
    th = T.TRe64()
    a = th.var("a")
    r = th.bin("Mul", a, th.const(0.5))
    s = z3.Solver()
    s.add(th.cons)
    s.add(a.term == 2, z3.Not(z3.And(r.term >= T.Q(1) - T.Q(T.U64), r.term <= T.Q(1) + T.Q(T.U64))))
    ok = ok and s.check() == z3.unsat
    print("selftest", "ok" if ok else "FAILED")
    return 0 if ok else 1
