"""Native replay: a generated Rust binary, built from /repo's current tree,
that evaluates concrete cases through the public API and prints the results
(unit, amount bits / decimal text, bool, ordering, or PANIC).

A case is a dict:
  {"backend": "f64"|"dec", "op": <op>, "types": [...], "paths": {...}, "units": [...], "amounts": [...]}
amounts are f64 bit patterns (int) or decimal strings.  The oracle is evaluated
by the caller in exact rational arithmetic on the printed output.
"""
import json
import os
import re
import shutil
import struct
from fractions import Fraction as F

from .. import common


def f64_bits(x):
    return struct.unpack("<Q", struct.pack("<d", float(x)))[0]


def bits_f64(b):
    return struct.unpack("<d", struct.pack("<Q", int(b)))[0]


def amt_expr(backend, a):
    if backend == "f64":
        return "f64::from_bits(0x%016x_u64)" % int(a)
    return '"%s".parse::<Decimal>().unwrap()' % a


def ty_path(case, q):
    if q in ("f64", "Decimal", "AmountT"):
        return "AmountT"
    return case.get("paths", {}).get(q) or q


def unit_expr(case, q, variant):
    if q in ("f64", "Decimal", "AmountT"):
        return "quantities::ONE"
    return "%sUnit::%s" % (ty_path(case, q), variant)


def qty_expr(case, q, amount, variant):
    return "<%s as Quantity>::new(%s, %s)" % (ty_path(case, q), amt_expr(case["backend"], amount), unit_expr(case, q, variant))


SHOW = """
fn show_amt(a: AmountT) -> String { SHOW_AMT }
fn show_q<Q: Quantity>(q: Q) -> String where Q::UnitType: core::fmt::Debug { format!("Q {:?} {}", q.unit(), show_amt(q.amount())) }
fn show_oq<Q: Quantity>(q: Option<Q>) -> String where Q::UnitType: core::fmt::Debug { match q { Some(q) => show_q(q), None => "NONE".to_string() } }
"""


def case_body(case):
    op = case["op"]
    be = case["backend"]
    t = case.get("types", [])
    u = case.get("units", [])
    a = case.get("amounts", [])
    if op in ("convert", "equiv_amount"):
        q = qty_expr(case, t[0], a[0], u[0])
        if op == "convert":
            return "show_q(HasRefUnit::convert(&%s, %s))" % (q, unit_expr(case, t[0], u[1]))
        return 'format!("A {}", show_amt(HasRefUnit::equiv_amount(&%s, %s)))' % (q, unit_expr(case, t[0], u[1]))
    if op in ("eq", "ne", "lt", "le", "gt", "ge"):
        sym = {"eq": "==", "ne": "!=", "lt": "<", "le": "<=", "gt": ">", "ge": ">="}[op]
        return 'format!("B {}", %s %s %s)' % (qty_expr(case, t[0], a[0], u[0]), sym, qty_expr(case, t[0], a[1], u[1]))
    if op == "cmp_all":
        x = qty_expr(case, t[0], a[0], u[0])
        y = qty_expr(case, t[0], a[1], u[1])
        return ('{ let x = %s; let y = %s; format!("C {} {} {} {} {} {} {:?} {} {} {} {} {} {} {:?}", x == y, x != y, x < y, x <= y, x > y, x >= y, '
                'PartialOrd::partial_cmp(&x, &y), y == x, y != x, y < x, y <= x, y > x, y >= x, PartialOrd::partial_cmp(&y, &x)) }' % (x, y))
    if op == "partial_cmp":
        return 'format!("O {:?}", PartialOrd::partial_cmp(&%s, &%s))' % (qty_expr(case, t[0], a[0], u[0]), qty_expr(case, t[0], a[1], u[1]))
    if op in ("add", "sub"):
        sym = "+" if op == "add" else "-"
        return "show_q(%s %s %s)" % (qty_expr(case, t[0], a[0], u[0]), sym, qty_expr(case, t[0], a[1], u[1]))
    if op == "ratio":
        return 'format!("A {}", show_amt(%s / %s))' % (qty_expr(case, t[0], a[0], u[0]), qty_expr(case, t[0], a[1], u[1]))
    if op in ("mul", "div"):
        sym = "*" if op == "mul" else "/"
        form = case.get("form", "vv")
        l = qty_expr(case, t[0], a[0], u[0])
        r = qty_expr(case, t[1], a[1], u[1])
        l = ("&" + l) if form[0] == "r" else l
        r = ("&" + r) if form[1] == "r" else r
        res = "(%s %s %s)" % (l, sym, r)
        if t[2] in ("f64", "Decimal", "AmountT"):
            return 'format!("Q One {}", show_amt(%s))' % res
        return "show_q(%s)" % res
    if op in ("scalar_mul_l", "scalar_mul_r", "scalar_div"):
        q = qty_expr(case, t[0], a[0], u[0])
        k = amt_expr(be, a[1])
        e = {"scalar_mul_l": "%s * %s" % (k, q), "scalar_mul_r": "%s * %s" % (q, k), "scalar_div": "%s / %s" % (q, k)}[op]
        return "show_q(%s)" % e
    if op == "fit":
        return "show_q(<%s as HasRefUnit>::_fit(%s))" % (ty_path(case, t[0]), amt_expr(be, a[0]))
    if op in ("rate_mul", "qty_mul_rate", "qty_div_rate", "qty_mul_recip"):
        # types: [TQ, PQ]; units: [term unit, per unit, operand unit]; amounts: [term amount, per multiple, operand amount]
        rate = "Rate::<%s, %s>::new(%s, %s, %s, %s)" % (ty_path(case, t[0]), ty_path(case, t[1]), amt_expr(be, a[0]),
                                                       unit_expr(case, t[0], u[0]), amt_expr(be, a[1]), unit_expr(case, t[1], u[1]))
        if op == "rate_mul":
            return "show_q(%s * %s)" % (rate, qty_expr(case, t[1], a[2], u[2]))
        if op == "qty_mul_rate":
            return "show_q(%s * %s)" % (qty_expr(case, t[1], a[2], u[2]), rate)
        if op == "qty_div_rate":
            return "show_q(%s / %s)" % (qty_expr(case, t[0], a[2], u[2]), rate)
        return "show_q(%s * %s.reciprocal())" % (qty_expr(case, t[0], a[2], u[2]), rate)
    if op in ("lookup_from_symbol", "lookup_unit_from_symbol"):
        sym = "".join(ch if (32 <= ord(ch) < 127 and ch not in '"\\') else "\\u{%x}" % ord(ch) for ch in case["symbol"])
        if op == "lookup_from_symbol":
            return 'format!("L {:?}", <%sUnit as Unit>::from_symbol("%s"))' % (ty_path(case, t[0]), sym)
        return 'format!("L {:?}", <%s as Quantity>::unit_from_symbol("%s"))' % (ty_path(case, t[0]), sym)
    if op == "temp_convert":
        return "show_oq(quantities::temperature::TEMPERATURE_CONVERTER.convert(&%s, %s))" % (qty_expr(case, t[0], a[0], u[0]), unit_expr(case, t[0], u[1]))
    raise ValueError("replay op " + op)


EXTRA_SRC = ""       # source of fixture definitions every replay binary of this run must contain


class ReplayCrate:
    def __init__(self, backend, name=None, extra_deps="", extra_src=""):
        extra_src = extra_src or EXTRA_SRC
        self.backend = backend
        sc = common.scratch()
        self.name = name or ("replay-" + backend)
        self.dir = sc.dir(self.name)
        self.target = sc.dir(self.name + "-target")
        self.extra_deps = extra_deps
        self.extra_src = extra_src
        self.cases = []
        self.built_profiles = set()

    def write(self):
        feats = '"std", "doc"' + (', "fpdec"' if self.backend == "dec" else "")
        deps = 'quantities = { path = "%s", default-features = false, features = [%s] }\n' % (common.REPO, feats)
        deps += 'astronomical-quantities = { path = "%s/astronimical_quantities" }\n' % common.REPO if self.backend == "f64" else ""
        deps += self.extra_deps
        with open(os.path.join(self.dir, "Cargo.toml"), "w") as f:
            f.write('[package]\nname = "replay"\nversion = "0.0.0"\nedition = "2021"\n\n[dependencies]\n%s\n[workspace]\n' % deps)
        if os.path.exists(os.path.join(common.REPO, "Cargo.lock")):
            shutil.copy(os.path.join(common.REPO, "Cargo.lock"), os.path.join(self.dir, "Cargo.lock"))
        os.makedirs(os.path.join(self.dir, "src"), exist_ok=True)
        show_amt = 'format!("{:016x}", a.to_bits())' if self.backend == "f64" else 'format!("{}", a)'
        src = "#![allow(unused, non_snake_case, clippy::all)]\nuse quantities::prelude::*;\nuse quantities::{Converter, ConversionTable};\n"
        if self.backend == "dec":
            src += "use quantities::Decimal;\n"
        src += self.extra_src
        src += SHOW.replace("SHOW_AMT", show_amt)
        for i, c in enumerate(self.cases):
            src += "fn case_%d() -> String { %s }\n" % (i, case_body(c))
        src += "fn main() {\n    std::panic::set_hook(Box::new(|_| {}));\n    let which: Vec<String> = std::env::args().skip(1).collect();\n"
        src += "    let cases: Vec<fn() -> String> = vec![%s];\n" % ", ".join("case_%d" % i for i in range(len(self.cases)))
        src += ("    for (i, c) in cases.iter().enumerate() {\n"
                "        if !which.is_empty() && !which.contains(&i.to_string()) { continue; }\n"
                "        let r = std::panic::catch_unwind(|| c());\n"
                "        match r { Ok(s) => println!(\"CASE {} {}\", i, s), Err(e) => {\n"
                "            let msg = if let Some(s) = e.downcast_ref::<String>() { s.clone() } else if let Some(s) = e.downcast_ref::<&str>() { s.to_string() } else { String::new() };\n"
                "            println!(\"CASE {} PANIC {}\", i, msg.replace('\\n', \" \")) } }\n    }\n}\n")
        with open(os.path.join(self.dir, "src", "main.rs"), "w") as f:
            f.write(src)

    def run(self, cases, release=False, timeout=900):
        """-> list of output strings (one per case) or raises Inconclusive"""
        self.cases = list(cases)
        self.write()
        cmd = ["cargo", "run", "--offline", "--quiet", "--target-dir", self.target] + (["--release"] if release else [])
        rc, out, dt = common.run(cmd, cwd=self.dir, env=common.base_env(), timeout=timeout, log=os.path.join(self.dir, "run.log"))
        res = {}
        for line in out.split("\n"):
            m = re.match(r"^CASE (\d+) (.*)$", line)
            if m:
                res[int(m.group(1))] = m.group(2)
        if rc != 0 or len(res) != len(self.cases):
            raise common.Inconclusive("native replay binary failed (rc=%s): %s" % (rc, out[-800:]))
        return [res[i] for i in range(len(self.cases))]


def parse_amount(backend, text):
    """-> exact value: float for f64 (may be inf/nan), Fraction for decimal"""
    if backend == "f64":
        return bits_f64(int(text, 16))
    return F(text)


def parse_q(backend, s):
    """'Q Unit amount' -> (unit, exact amount) ; 'PANIC ...' -> ('PANIC', msg) ; 'NONE'"""
    if s.startswith("PANIC"):
        return ("PANIC", s[6:])
    if s == "NONE":
        return ("NONE", None)
    k, rest = s.split(" ", 1)
    if k == "Q":
        unit, amt = rest.rsplit(" ", 1)
        return (unit, parse_amount(backend, amt))
    if k == "A":
        return ("A", parse_amount(backend, rest))
    if k == "B":
        return ("B", rest == "true")
    if k == "O":
        return ("O", rest)
    raise ValueError(s)
