"""Native registry dump: name, symbol, prefix, scale of every iterated unit of the
given quantity types, printed by a program built from /repo's current tree."""
import os
import re
import shutil
from fractions import Fraction as F

from .. import common
from . import gen


def dump(backend, qtys, astro=False, extra_deps="", extra_src="", name=None):
    """qtys: list of (label, rust path of the quantity type, has_ref) -> {label: [ {variant,name,symbol,prefix,scale} ]}"""
    rc = gen.ReplayCrate(backend, name=name or ("regdump-" + backend), extra_deps=extra_deps, extra_src=extra_src)
    rc.write()
    show = 'format!("{:016x}", a.to_bits())' if backend == "f64" else 'format!("{}", a)'
    src = "#![allow(unused, non_snake_case)]\nuse quantities::prelude::*;\n"
    if backend == "dec":
        src += "use quantities::Decimal;\n"
    src += extra_src
    src += "fn show_amt(a: AmountT) -> String { %s }\n" % show
    src += ("fn dump_ref<Q: HasRefUnit>(label: &str) where Q::UnitType: core::fmt::Debug + LinearScaledUnit {\n"
            "    for u in Q::iter_units() { println!(\"U\\t{}\\t{:?}\\t{}\\t{}\\t{:?}\\t{}\\t{}\", label, u, u.name(), u.symbol(), u.si_prefix(), show_amt(u.scale()), u.is_ref_unit()); }\n"
            "    println!(\"R\\t{}\\t{:?}\", label, <Q as HasRefUnit>::REF_UNIT);\n}\n"
            "fn dump_noref<Q: Quantity>(label: &str) where Q::UnitType: core::fmt::Debug {\n"
            "    for u in Q::iter_units() { println!(\"U\\t{}\\t{:?}\\t{}\\t{}\\t{:?}\\t-\\tfalse\", label, u, u.name(), u.symbol(), u.si_prefix()); }\n}\n")
    src += "fn main() {\n"
    for label, path, has_ref in qtys:
        src += '    dump_%s::<%s>("%s");\n' % ("ref" if has_ref else "noref", path, label)
    src += "}\n"
    with open(os.path.join(rc.dir, "src", "main.rs"), "w") as f:
        f.write(src)
    rcode, out, dt = common.run(["cargo", "run", "--offline", "--quiet", "--target-dir", rc.target], cwd=rc.dir, env=common.base_env(), timeout=900)
    if rcode != 0:
        raise common.Inconclusive("native registry dump failed to build/run: %s" % out[-800:])
    res = {}
    refs = {}
    for line in out.split("\n"):
        p = line.split("\t")
        if p[0] == "U":
            scale = None if p[6] == "-" else gen.parse_amount(backend, p[6])
            res.setdefault(p[1], []).append({"variant": p[2], "name": p[3], "symbol": p[4],
                                             "prefix": None if p[5] == "None" else re.sub(r"^Some\((\w+)\)$", r"\1", p[5]),
                                             "scale": scale, "is_ref": p[7] == "true"})
        elif p[0] == "R":
            refs[p[1]] = p[2]
    return res, refs
