"""Shared infrastructure of the /verif checks: scratch space, sub-process
runner, evidence writer, known-findings file, verdict bookkeeping.

Exit codes of a check (DESIGN section 9):
  0  every obligation discharged, vacuity witnesses present
  1  a counterexample that reproduced natively (VIOLATION line printed)
  2  inconclusive: timeout, solver `unknown`, unsupported construct,
     non-reproducing model, harness build error -- never reported as success
"""
import atexit
import json
import os
import re
import shutil
import signal
import subprocess
import sys
import time

VERIF = os.path.dirname(os.path.dirname(os.path.abspath(__file__)))
REPO = os.environ.get("VERIF_REPO", "/repo")
GUARD = "mamrhein_quantities_rs_verif"

CATALOGUE_FEATURES = "std,doc"


def seed():
    try:
        return int(os.environ.get("VERIF_SEED", "0"))
    except ValueError:
        return 0


def ncpu():
    try:
        return max(1, int(os.environ.get("VERIF_JOBS", os.cpu_count() or 4)))
    except ValueError:
        return 4


class Scratch:
    """Scratch root outside /repo and /verif, removed on exit."""

    def __init__(self):
        base = os.environ.get("VERIF_SCRATCH", "/var/tmp")
        self.owner = os.getpid()
        self.root = os.path.join(base, "qverif.%d" % os.getpid())
        os.makedirs(self.root, exist_ok=True)
        self.keep = bool(os.environ.get("VERIF_KEEP"))
        atexit.register(self.cleanup)
        for sig in (signal.SIGTERM, signal.SIGINT, signal.SIGHUP):
            try:
                signal.signal(sig, self._sig)
            except Exception:
                pass

    def _sig(self, signum, frame):
        self.cleanup()
        os._exit(128 + signum)

    def _mine(self):
        # forked pool workers inherit the handlers; only the creating process may remove the scratch root
        return os.getpid() == self.owner

    def path(self, *parts):
        p = os.path.join(self.root, *parts)
        os.makedirs(os.path.dirname(p), exist_ok=True)
        return p

    def dir(self, *parts):
        p = os.path.join(self.root, *parts)
        os.makedirs(p, exist_ok=True)
        return p

    def cleanup(self):
        if not self.keep and self._mine():
            shutil.rmtree(self.root, ignore_errors=True)


_scratch = None


def scratch():
    global _scratch
    if _scratch is None:
        _scratch = Scratch()
    return _scratch


def base_env(toolchain=None):
    env = dict(os.environ)
    env["CARGO_NET_OFFLINE"] = "true"
    env["CARGO_TERM_COLOR"] = "never"
    env.pop("RUSTFLAGS", None)
    if toolchain:
        env["RUSTUP_TOOLCHAIN"] = toolchain
    else:
        env.pop("RUSTUP_TOOLCHAIN", None)
    return env


def run(cmd, cwd=None, env=None, timeout=None, log=None, mem_gb=None):
    """Run a command, return (rc, stdout+stderr text, wall seconds).
    rc = -9 on timeout."""
    t0 = time.time()
    pre = None
    if mem_gb:
        import resource

        def pre():
            lim = int(mem_gb * (1 << 30))
            resource.setrlimit(resource.RLIMIT_AS, (lim, lim))
            os.setsid()
    else:
        pre = os.setsid
    p = subprocess.Popen(cmd, cwd=cwd, env=env or base_env(), stdout=subprocess.PIPE,
                         stderr=subprocess.STDOUT, preexec_fn=pre, text=True, errors="replace")
    try:
        out, _ = p.communicate(timeout=timeout)
        rc = p.returncode
    except subprocess.TimeoutExpired:
        try:
            os.killpg(p.pid, signal.SIGKILL)
        except Exception:
            p.kill()
        out, _ = p.communicate()
        rc = -9
    dt = time.time() - t0
    if log:
        with open(log, "w") as f:
            f.write("$ %s\n" % (" ".join(cmd) if isinstance(cmd, list) else cmd))
            f.write(out)
    return rc, out, dt


# --------------------------------------------------------------------------
# known findings


class KnownFindings:
    """Reads /verif/KNOWN_FINDINGS.txt (never written at run time).
    Lines:  known: property=<id> key=<role key> <what fails>
            fixed: property=<id> <commit> <what failed>
    """

    def __init__(self, path=None):
        self.path = path or os.path.join(VERIF, "KNOWN_FINDINGS.txt")
        self.known = {}
        self.fixed = []
        if os.path.exists(self.path):
            for line in open(self.path):
                line = line.strip()
                if not line or line.startswith("#"):
                    continue
                m = re.match(r"known:\s+property=(\S+)\s+key=(\S+)\s+(.*)$", line)
                if m:
                    self.known.setdefault(m.group(1), {})[m.group(2)] = m.group(3)
                    continue
                m = re.match(r"fixed:\s+property=(\S+)\s+(\S+)\s+(.*)$", line)
                if m:
                    self.fixed.append(m.groups())

    def lookup(self, prop, key):
        return self.known.get(prop, {}).get(key)


# --------------------------------------------------------------------------
# verdict bookkeeping + evidence


class Report:
    """Collects what one check run did, writes evidence, decides exit code."""

    def __init__(self, prop, tier):
        self.prop = prop
        self.tier = tier
        self.t0 = time.time()
        self.level = "model_checking"
        self.functions = set()
        self.bounds = {}
        self.assumptions = []
        self.stubs = set()
        self.trusted = []
        self.samples = []
        self.evaluations = 0          # solver queries + harness checks
        self.obligations = 0
        self.discharged = 0
        self.nontrivial = set()       # distinct (type, op, unit pair, path) keys with a symbolic input
        self.solver_s = 0.0
        self.engine_time = {}
        self.vacuity = []
        self.traces_validated = 0
        self.cross_solver = {}
        self.violations = []          # (key, description, replay_path)
        self.known_hits = []          # (key, description)
        self.inconclusive = []        # strings
        self.notes = []
        self.extra = {}
        self.kf = KnownFindings()

    # -- recording
    def oblig(self, key, ok, symbolic=True, sample=None):
        self.obligations += 1
        if ok:
            self.discharged += 1
        if symbolic:
            self.nontrivial.add(key)
        if sample is not None and len(self.samples) < 12:
            self.samples.append(sample)

    def violation(self, key, desc, replay_path):
        known = self.kf.lookup(self.prop, key)
        if known is not None:
            if key not in [k for k, _ in self.known_hits]:
                self.known_hits.append((key, known))
            return False
        self.violations.append((key, desc, replay_path))
        return True

    def inconcl(self, msg):
        self.inconclusive.append(msg)

    def time_engine(self, name, dt):
        self.engine_time[name] = round(self.engine_time.get(name, 0.0) + dt, 3)

    # -- finishing
    def evidence(self):
        cov = {
            "evaluations": int(self.evaluations),
            "distinct_nontrivial": len(self.nontrivial),
            "rule": self.extra.pop("rule", "one case = one solver query or one Kani harness check; distinct_nontrivial counts "
                                           "distinct (type, operation, unit tuple, path) obligations that contain at least one symbolic "
                                           "amount, index, string or table"),
            "samples": self.samples[:12] or ["(no obligation reached)"],
            "obligations": int(self.obligations),
            "discharged": int(self.discharged),
            "traces_validated_against_impl": int(self.traces_validated),
            "functions_encoded": sorted(self.functions)[:400],
            "bounds": self.bounds,
            "stubs_and_summaries": sorted(self.stubs),
            "solver_time_s": round(self.solver_s, 3),
            "engine_time_s": self.engine_time,
            "vacuity_witnesses": self.vacuity[:40],
            "cross_solver": self.cross_solver,
            "trusted_base": self.trusted,
            "known_findings_reported": ["%s %s" % kh for kh in self.known_hits],
            "inconclusive": self.inconclusive[:20],
            "notes": self.notes[:40],
            "exhaustive": False,
        }
        cov.update(self.extra)
        return {
            "property_id": self.prop,
            "tier": self.tier,
            "seed": seed(),
            "level": self.level,
            "coverage": cov,
            "assumptions": self.assumptions,
            "wall_s": round(time.time() - self.t0, 2),
            "violations": len(self.violations),
        }

    def finish(self):
        ev = self.evidence()
        evdir = os.environ.get("VERIF_EVIDENCE_DIR") or os.path.join(VERIF, "evidence")
        os.makedirs(evdir, exist_ok=True)
        path = os.path.join(evdir, "%s.json" % self.prop)
        tmp = path + ".tmp"
        with open(tmp, "w") as f:
            json.dump(ev, f, indent=1, sort_keys=True, default=str)
            f.write("\n")
        os.replace(tmp, path)
        for key, desc in self.known_hits:
            print("KNOWN-FINDING: property=%s key=%s %s" % (self.prop, key, desc))
        for key, desc, rp in self.violations:
            print("violation key=%s: %s" % (key, desc))
            print("VIOLATION property=%s replay=%s" % (self.prop, rp))
        cov = ev["coverage"]
        print("%s %s: obligations %d discharged %d, evaluations %d, distinct non-trivial %d, solver %.1fs, wall %.1fs"
              % (self.prop, self.tier, cov["obligations"], cov["discharged"], cov["evaluations"],
                 cov["distinct_nontrivial"], cov["solver_time_s"], ev["wall_s"]))
        if self.violations:
            return 1
        if self.inconclusive:
            for m in self.inconclusive[:20]:
                print("INCONCLUSIVE: %s" % m)
            return 2
        if self.obligations == 0:
            print("INCONCLUSIVE: no obligation was generated")
            return 2
        return 0


def replay_dir(prop):
    d = os.path.join(os.environ.get("VERIF_REPLAY_DIR") or os.path.join(VERIF, "replays"), prop)
    os.makedirs(d, exist_ok=True)
    return d


def write_replay(prop, name, obj):
    p = os.path.join(replay_dir(prop), re.sub(r"[^A-Za-z0-9_.-]", "_", name) + ".json")
    with open(p, "w") as f:
        json.dump(obj, f, indent=1, sort_keys=True, default=str)
        f.write("\n")
    return p


class Inconclusive(Exception):
    """Raised by an engine when it cannot encode / decide something."""
