"""Reading of "up to the rounding of the amount type" (DESIGN section 6).
One place; every obligation imports its bound from here."""
from fractions import Fraction as F

U = F(1, 2 ** 53)          # unit round-off of binary64
EPS = F(1, 10 ** 18)       # resolution of the decimal back-end
K64 = 8                    # f64: |r - T| <= K64 * U * |T|  (the implementation needs <= 4 roundings anywhere)
KDEC = 4                   # decimal: |r - T| <= KDEC * EPS * (1 + |a|)-style absolute bounds
K64_RATE = 12
KDEC_RATE = 8

# input boxes (bounds of the E2 claims)
BOX64_1 = (F(1, 2 ** 900), F(2 ** 900))     # one symbolic amount multiplied by constants
BOX64_2 = (F(1, 2 ** 400), F(2 ** 400))     # two symbolic factors
BOX64_3 = (F(1, 2 ** 250), F(2 ** 250))     # three symbolic factors (rates)
BOXDEC = F(10 ** 17)                        # |a| <= 1e17
DEC_DIV_MIN = F(1, 10 ** 9)                 # lower bound on |divisor in dividend's unit| for quotient tolerances
