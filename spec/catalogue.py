"""Independent definition tables (DESIGN section 6).

Written by hand from published definitions (SI brochure 9th ed. incl. the 2022
prefixes, the international yard and pound agreement of 1959, IEC 80000-13
binary prefixes, IAU 2012/2015 resolutions for the astronomical units), NOT
copied from /repo.  Every scale is an exact rational obtained by chaining the
definition down to the reference unit.  Only the *identifiers* have to match
the repository (they are the public API names: constants are UPPER_SNAKE of
them, names are the identifier with `_` shown as space).

A unit is (ident, symbol, si_prefix or None, exact Fraction scale, terminating?)
"""
from fractions import Fraction as F

# ---------------------------------------------------------------------------
# SI prefixes: name, abbreviation, exponent (SI brochure, table 7 + 2022 add.)
SI_PREFIXES = [
    ("QUECTO", "Quecto", "q", -30),
    ("RONTO", "Ronto", "r", -27),
    ("YOCTO", "Yocto", "y", -24),
    ("ZEPTO", "Zepto", "z", -21),
    ("ATTO", "Atto", "a", -18),
    ("FEMTO", "Femto", "f", -15),
    ("PICO", "Pico", "p", -12),
    ("NANO", "Nano", "n", -9),
    ("MICRO", "Micro", "µ", -6),
    ("MILLI", "Milli", "m", -3),
    ("CENTI", "Centi", "c", -2),
    ("DECI", "Deci", "d", -1),
    ("NONE", "", "", 0),
    ("DECA", "Deca", "da", 1),
    ("HECTO", "Hecto", "h", 2),
    ("KILO", "Kilo", "k", 3),
    ("MEGA", "Mega", "M", 6),
    ("GIGA", "Giga", "G", 9),
    ("TERA", "Tera", "T", 12),
    ("PETA", "Peta", "P", 15),
    ("EXA", "Exa", "E", 18),
    ("ZETTA", "Zetta", "Z", 21),
    ("YOTTA", "Yotta", "Y", 24),
    ("RONNA", "Ronna", "R", 27),
    ("QUETTA", "Quetta", "Q", 30),
]
PREFIX_EXP = {p[0]: p[3] for p in SI_PREFIXES}


def terminating(fr):
    d = F(fr).denominator
    for p in (2, 5):
        while d % p == 0:
            d //= p
    return d == 1


class UnitSpec:
    def __init__(self, ident, symbol, prefix, scale, exact=True, note=""):
        self.ident = ident                      # as written in the definition (Snake_With_Caps)
        self.symbol = symbol
        self.prefix = prefix
        self.scale = None if scale is None else F(scale)
        # exact=False: the rational is itself an approximation (pi)
        self.terminating = (scale is not None) and exact and terminating(scale)
        self.exact = exact
        self.note = note

    @property
    def name(self):
        return self.ident.replace("_", " ")

    @property
    def variant(self):
        # convert_case UpperCamel of the identifier: words split at '_' and
        # lower->upper boundaries, each capitalised
        return upper_camel(self.ident)

    @property
    def const(self):
        return upper_snake(self.variant)


def _words(s):
    import re
    out = []
    for part in s.split("_"):
        if not part:
            continue
        out += re.findall(r"[A-Z]+(?![a-z])|[A-Z]?[a-z0-9]+", part) or [part]
    return out


def upper_camel(ident):
    return "".join(w[:1].upper() + w[1:].lower() for w in _words(ident))


def upper_snake(variant):
    return "_".join(w.upper() for w in _words(variant))


class QtySpec:
    def __init__(self, crate, module, name, ref, units, derived=None, feature=None):
        self.crate = crate            # 'quantities' | 'astronomical_quantities'
        self.module = module          # module path inside the crate ('' = crate root)
        self.name = name
        self.ref = ref                # ident of the reference unit or None
        self.units = units            # list of UnitSpec incl. the reference unit
        self.derived = derived        # (lhs, op, rhs) or None
        self.feature = feature or module

    @property
    def unit_type(self):
        return self.name + "Unit"

    def path(self):
        c = self.crate
        return "%s::%s" % (c, self.module) if self.module else c

    def unit(self, ident):
        for u in self.units:
            if u.ident == ident:
                return u
        raise KeyError(ident)

    def ordered(self):
        """Expected iteration order: non-decreasing scale, reference unit first
        among scale-one units; the order of *other* ties is declaration order
        and is taken from /repo's attribute lines by the caller; name order for
        types without reference unit."""
        if self.ref is None:
            return sorted(self.units, key=lambda u: u.name)
        rest = [u for u in self.units if u.ident != self.ref]
        out = [self.unit(self.ref)] + rest
        return sorted(out, key=lambda u: u.scale)   # stable


def U(ident, symbol, prefix, scale, exact=True, note=""):
    return UnitSpec(ident, symbol, prefix, scale, exact, note)


# ---------------------------------------------------------------------------
# chains
INCH = F(254, 10000)            # 2.54 cm (1959)
FOOT = 12 * INCH
YARD = 3 * FOOT
CHAIN = 22 * YARD
FURLONG = 10 * CHAIN
MILE = 8 * FURLONG
POUND = F(45359237, 100000000)  # kg (1959)
MINUTE = 60
HOUR = 60 * MINUTE
DAY = 24 * HOUR
LITER = F(1, 1000)              # dm^3
BIT = F(1, 8)                   # byte = 8 bit


def _data(suffix_ident="", suffix_sym="", ref_ident="Byte", ref_sym="B"):
    us = [U(ref_ident + suffix_ident, ref_sym + suffix_sym, "NONE", 1),
          U("Bit" + suffix_ident, "b" + suffix_sym, None, BIT)]
    dec = [("Kilo", "k", "KILO", 10 ** 3), ("Mega", "M", "MEGA", 10 ** 6),
           ("Giga", "G", "GIGA", 10 ** 9), ("Tera", "T", "TERA", 10 ** 12)]
    bi = [("Kibi", "Ki", 2 ** 10), ("Mebi", "Mi", 2 ** 20), ("Gibi", "Gi", 2 ** 30), ("Tebi", "Ti", 2 ** 40)]
    for (dn, ds, dp, dv), (bn, bs, bv) in zip(dec, bi):
        us.append(U(dn + "bit" + suffix_ident, ds + "b" + suffix_sym, None, dv * BIT))
        us.append(U(bn + "bit" + suffix_ident, bs + "b" + suffix_sym, None, bv * BIT))
        us.append(U(dn + "byte" + suffix_ident, ds + "B" + suffix_sym, dp, dv))
        us.append(U(bn + "byte" + suffix_ident, bs + "B" + suffix_sym, None, bv))
    return us


CATALOGUE = [
    QtySpec("quantities", "mass", "Mass", "Kilogram", [
        U("Kilogram", "kg", "KILO", 1),
        U("Milligram", "mg", "MILLI", F(1, 10 ** 6)),
        U("Carat", "ct", None, F(2, 10 ** 4)),            # metric carat = 200 mg
        U("Gram", "g", "NONE", F(1, 1000)),
        U("Ounce", "oz", None, POUND / 16),
        U("Pound", "lb", None, POUND),
        U("Stone", "st", None, 14 * POUND),
        U("Tonne", "t", "MEGA", 1000),
    ]),
    QtySpec("quantities", "length", "Length", "Meter", [
        U("Meter", "m", "NONE", 1),
        U("Nanometer", "nm", "NANO", F(1, 10 ** 9)),
        U("Micrometer", "µm", "MICRO", F(1, 10 ** 6)),
        U("Millimeter", "mm", "MILLI", F(1, 10 ** 3)),
        U("Centimeter", "cm", "CENTI", F(1, 10 ** 2)),
        U("Inch", "in", None, INCH),
        U("Decimeter", "dm", "DECI", F(1, 10)),
        U("Foot", "ft", None, FOOT),
        U("Yard", "yd", None, YARD),
        U("Chain", "ch", None, CHAIN),
        U("Furlong", "fur", None, FURLONG),
        U("Kilometer", "km", "KILO", 1000),
        U("Mile", "mi", None, MILE),
    ]),
    QtySpec("quantities", "duration", "Duration", "Second", [
        U("Second", "s", "NONE", 1),
        U("Nanosecond", "ns", "NANO", F(1, 10 ** 9)),
        U("Microsecond", "µs", "MICRO", F(1, 10 ** 6)),
        U("Millisecond", "ms", "MILLI", F(1, 10 ** 3)),
        U("Minute", "min", None, MINUTE),
        U("Hour", "h", None, HOUR),
        U("Day", "d", None, DAY),
    ]),
    QtySpec("quantities", "area", "Area", "Square_Meter", [
        U("Square_Meter", "m²", "NONE", 1),
        U("Square_Millimeter", "mm²", "MICRO", F(1, 10 ** 3) ** 2),
        U("Square_Centimeter", "cm²", None, F(1, 10 ** 2) ** 2),
        U("Square_Inch", "in²", None, INCH ** 2),
        U("Square_Decimeter", "dm²", "CENTI", F(1, 10) ** 2),
        U("Square_Foot", "ft²", None, FOOT ** 2),
        U("Square_Yard", "yd²", None, YARD ** 2),
        U("Are", "a", "HECTO", 100),
        U("Acre", "ac", None, 4840 * YARD ** 2),
        U("Hectare", "ha", None, 100 * 100),
        U("Square_Kilometer", "km²", "MEGA", 1000 ** 2),
        U("Square_Mile", "mi²", None, MILE ** 2),
    ], derived=("Length", "*", "Length")),
    QtySpec("quantities", "volume", "Volume", "Cubic_Meter", [
        U("Cubic_Meter", "m³", "NONE", 1),
        U("Cubic_Millimeter", "mm³", "NANO", F(1, 10 ** 3) ** 3),
        U("Cubic_Centimeter", "cm³", "MICRO", F(1, 10 ** 2) ** 3),
        U("Milliliter", "ml", "MICRO", LITER / 1000),
        U("Centiliter", "cl", None, LITER / 100),
        U("Cubic_Inch", "in³", None, INCH ** 3),
        U("Deciliter", "dl", None, LITER / 10),
        U("Cubic_Decimeter", "dm³", "MILLI", F(1, 10) ** 3),
        U("Liter", "l", "MILLI", LITER),
        U("Cubic_Foot", "ft³", None, FOOT ** 3),
        U("Cubic_Yard", "yd³", None, YARD ** 3),
        U("Cubic_Kilometer", "km³", "GIGA", 1000 ** 3),
    ], derived=("Length", "*", "Area")),
    QtySpec("quantities", "speed", "Speed", "Meter_per_Second", [
        U("Meter_per_Second", "m/s", "NONE", 1),
        U("Kilometer_per_Hour", "km/h", None, F(1000, HOUR)),
        U("Miles_per_Hour", "mph", None, MILE / HOUR),
    ], derived=("Length", "/", "Duration")),
    QtySpec("quantities", "acceleration", "Acceleration", "Meter_per_Second_squared", [
        U("Meter_per_Second_squared", "m/s²", "NONE", 1),
        U("Yards_per_Second_squared", "yd/s²", None, YARD),
    ], derived=("Speed", "/", "Duration")),
    QtySpec("quantities", "force", "Force", "Newton", [
        U("Newton", "N", "NONE", 1),
        U("Joule_per_Meter", "J/m", "NONE", 1),
    ], derived=("Mass", "*", "Acceleration")),
    QtySpec("quantities", "energy", "Energy", "Joule", [
        U("Joule", "J", "NONE", 1),
        U("Newton_Meter", "Nm", "NONE", 1),
        U("Watt_Second", "Ws", "NONE", 1),
        U("Kilowatt_Hour", "kWh", None, 1000 * HOUR),
    ], derived=("Force", "*", "Length")),
    QtySpec("quantities", "power", "Power", "Watt", [
        U("Watt", "W", "NONE", 1),
        U("Milliwatt", "mW", "MILLI", F(1, 1000)),
        U("Kilowatt", "kW", "KILO", 10 ** 3),
        U("Megawatt", "MW", "MEGA", 10 ** 6),
        U("Gigawatt", "GW", "GIGA", 10 ** 9),
        U("Terawatt", "TW", "TERA", 10 ** 12),
    ], derived=("Energy", "/", "Duration")),
    QtySpec("quantities", "frequency", "Frequency", "Hertz", [
        U("Hertz", "Hz", "NONE", 1),
        U("Kilohertz", "kHz", "KILO", 10 ** 3),
        U("Megahertz", "MHz", "MEGA", 10 ** 6),
        U("Gigahertz", "GHz", "GIGA", 10 ** 9),
    ], derived=("AmountT", "/", "Duration")),
    QtySpec("quantities", "datavolume", "DataVolume", "Byte", _data()),
    QtySpec("quantities", "datathroughput", "DataThroughput", "Byte_per_Second",
            _data("_per_Second", "/s"), derived=("DataVolume", "/", "Duration")),
    QtySpec("quantities", "temperature", "Temperature", None, [
        U("Kelvin", "K", None, None),
        U("Degree_Celsius", "°C", None, None),
        U("Degree_Fahrenheit", "°F", None, None),
    ]),
]

# ---------------------------------------------------------------------------
# astronomical crate: the definitions are the rationals stated in the crate's
# own unit documentation and IAU constants (weaker independence, recorded in
# evidence).  au = 149 597 870 700 m (IAU 2012 B2), c = 299 792 458 m/s,
# Julian year = 365.25 d of 86400 s.
AU_M = 149597870700
C_MS = 299792458
# pi to 60 digits as a rational (non-terminating definition -> 2 ulp allowance)
PI = F(3141592653589793238462643383279502884197169399375105820974944, 10 ** 60)
A_KM = F(1000, AU_M)
A_LS = F(C_MS, AU_M)
A_LY = F(31557600) * A_LS
A_PC = F(648000) / PI
D_S = F(1, 86400)
JULIAN_YEAR = F(36525, 100)

ASTRO = [
    QtySpec("astronomical_quantities", "", "Mass", "Solar_Mass", [
        U("Solar_Mass", "M☉", None, 1),
        U("Lunar_Mass", "M☾", None, F(1, 27068510)),
        U("Earth_Mass", "M\U0001f728", None, F(10000, 3329460487)),
        U("Jupiter_Mass", "M♃", None, F(1000000, 1047348644)),
    ]),
    QtySpec("astronomical_quantities", "", "Length", "Astronomical_Unit", [
        U("Astronomical_Unit", "au", None, 1),
        U("Kilometer", "km", None, A_KM),
        U("Lightsecond", "ls", None, A_LS),
        U("Lightyear", "ly", None, A_LY),
        U("Parsec", "pc", None, A_PC, exact=False),
        U("Kilolightyear", "kly", None, 10 ** 3 * A_LY),
        U("Kiloparsec", "kpc", None, 10 ** 3 * A_PC, exact=False),
        U("Megalightyear", "Mly", None, 10 ** 6 * A_LY),
        U("Megaparsec", "Mpc", None, 10 ** 6 * A_PC, exact=False),
        U("Gigalightyear", "Gly", None, 10 ** 9 * A_LY),
        U("Gigaparsec", "Gpc", None, 10 ** 9 * A_PC, exact=False),
    ]),
    QtySpec("astronomical_quantities", "", "Duration", "Day", [
        U("Day", "d", None, 1),
        U("Second", "s", None, D_S),
        U("Minute", "min", None, 60 * D_S),
        U("Hour", "h", None, 3600 * D_S),
        # documented definition a*d/(a+d) with a = Julian year
        U("Sideral_Day", "dₛ", None, JULIAN_YEAR / (JULIAN_YEAR + 1)),
        U("Julian_Year", "a", None, JULIAN_YEAR),
        U("Gregorian_Year", "yr", None, F(3652425, 10000)),
        U("Earth_Period", "T\U0001f728", None, F(365256363004, 10 ** 9)),
    ]),
    QtySpec("astronomical_quantities", "", "Speed", "Astronomical_Units_per_Day", [
        U("Astronomical_Units_per_Day", "au/d", None, 1),
        U("Kilometer_per_Hour", "km/h", None, A_KM / (3600 * D_S)),
        U("Meter_per_Second", "m/s", None, F(1, AU_M) / D_S),
        U("Speed_of_Light", "c", None, A_LS / D_S),
    ], derived=("Length", "/", "Duration")),
]


def by_name(name, table=None):
    for q in (table or CATALOGUE):
        if q.name == name:
            return q
    raise KeyError(name)


def derivations(table=None):
    return [(q.name,) + q.derived for q in (table or CATALOGUE) if q.derived]


def operator_instances(table=None):
    """The operator instances the macro must generate for the declared
    derivations: R = A*B -> A*B, B*A, R/A, R/B ; R = A/B -> A/B, R*B, B*R, A/R."""
    out = []
    for r, a, op, b in derivations(table):
        if op == "*":
            out.append((a, "mul", b, r))
            if a != b:
                out.append((b, "mul", a, r))
            out.append((r, "div", b, a))
            if a != b:
                out.append((r, "div", a, b))
        else:
            out.append((a, "div", b, r))
            out.append((r, "mul", b, a))
            if r != b:
                out.append((b, "mul", r, a))
            out.append((a, "div", r, b))
    return out


# Temperature: exact physical formulas, to = f * from + o
TEMP_FORMULAS = {
    ("Kelvin", "Degree_Celsius"): (F(1), F(-27315, 100)),
    ("Degree_Celsius", "Kelvin"): (F(1), F(27315, 100)),
    ("Kelvin", "Degree_Fahrenheit"): (F(9, 5), F(-45967, 100)),
    ("Degree_Fahrenheit", "Kelvin"): (F(5, 9), F(45967, 100) * F(5, 9)),
    ("Degree_Celsius", "Degree_Fahrenheit"): (F(9, 5), F(32)),
    ("Degree_Fahrenheit", "Degree_Celsius"): (F(5, 9), F(-32) * F(5, 9)),
}

if __name__ == "__main__":
    n = 0
    for q in CATALOGUE + ASTRO:
        print(q.crate, q.name, len(q.units), q.derived)
        n += len(q.units)
        for u in q.ordered():
            print("   %-28s %-8s %-6s %s%s" % (u.variant, u.symbol, u.prefix, float(u.scale) if u.scale is not None else None,
                                               "" if u.terminating or u.scale is None else "  (non-terminating)"))
    print(n, "units;", len(operator_instances()), "operator instances")
