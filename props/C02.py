"""C02 Cross-unit comparison is physically correct and order-independent -- E2.

Per type with reference unit and ordered unit pair (ua, ub), symbolic a, b:
  order     exact magnitudes A = a*sa, B = b*sb differ by more than the
            tolerance  =>  partial_cmp / == agree with the exact order   (T_re64 / T_red)
  same      ua == ub  =>  partial_cmp and == are the amount type's own    (T_uf)
  symmetry  a == b <=> b == a ; a < b <=> b > a ; Equal <=> ==            (T_uf with totality = non-NaN;
            a SAT answer is a candidate, re-decided bit-precisely under T_fp (f64) and replayed natively)
`<, <=, >, >=, !=` are std's documented derivations from partial_cmp / eq.
"""
from fractions import Fraction as F

from engine import common
from engine.mirsmt import frontend, pool as mpool
from engine.replay import gen as rgen
from spec import tolerances as tol
from props import e2common as E

TAU64 = 4 * tol.U


def tol_expr(T, be, a, b, sa, sb, A, B):
    if be == "f64":
        return T.Q(TAU64) * (T.zabs(A) + T.zabs(B))
    return T.Q(tol.KDEC * tol.EPS * (1 + sa + sb)) * (1 + T.zabs(a.term) + T.zabs(b.term))


def tol_value(be, a, b, sa, sb):
    A, B = F(a) * sa, F(b) * sb
    if be == "f64":
        return TAU64 * (abs(A) + abs(B))
    return tol.KDEC * tol.EPS * (1 + sa + sb) * (1 + abs(F(a)) + abs(F(b)))


def task(t):
    import z3
    from engine.mirsmt import driver, theories as T
    from engine.mirsmt.exec import b_and, b_or, b_not
    key, q, ua, fp_budget = t
    w = mpool.world(key)
    be = w.backend
    R = mpool.TaskResult()
    sv = driver.Solver(timeout_ms=E.query_timeout_ms())
    for ub in w.units(q):
        pair = "%s %s:%s~%s" % (be, q, ua, ub)
        sa, sb = w.scale_fr(q, ua), w.scale_fr(q, ub)
        # ------------------------------------------------ physical order
        th = T.TRe64() if be == "f64" else T.TRed()
        run = driver.Run(w, th)
        a, b = th.var("a"), th.var("b")
        box = z3.And(E.box1(th, a), E.box1(th, b))
        run.assume(box)
        s0 = run.state()
        qa, qb = run.qty(s0, q, a, ua), run.qty(s0, q, b, ub)
        oc = run.call(s0, "<%s as PartialOrd>::partial_cmp" % q, [run.ref(s0, qa), run.ref(s0, qb)])
        s1 = run.state()
        qa1, qb1 = run.qty(s1, q, a, ua), run.qty(s1, q, b, ub)
        oe = run.call(s1, "<%s as PartialEq>::eq" % q, [run.ref(s1, qa1), run.ref(s1, qb1)])
        R.absorb_exec(run.ex)
        if any(o.panic for o in oc + oe):
            R.oblig(pair + " no-panic", False)
            R.candidates.append(E.cand("C02", "panic", be, w, "cmp_all", [q], [ua, ub], None, pair, note="comparison panics"))
        A, B = a.term * T.Q(sa), b.term * T.Q(sb)
        tl = tol_expr(T, be, a, b, sa, sb, A, B)
        hyp0 = [box] + th.cons + ([f for _, f in th.side] if be == "dec" else [])
        cond = E.ord_conds(oc)
        eqf = E.bool_of(oe)
        checks = [
            ("lt-required", B - A > tl, b_or(cond["Equal"], cond["Greater"], cond[None], eqf)),
            ("gt-required", A - B > tl, b_or(cond["Equal"], cond["Less"], cond[None], eqf)),
        ]
        for name, pre, wrong in checks:
            if wrong is False:
                R.oblig(pair + " " + name, True, True)
                continue
            res, model = sv.check(hyp0 + [pre, E.z(wrong)], want_model=True, keep_sample=True)
            R.oblig(pair + " " + name, res == "unsat", True,
                    {"obligation": pair + " " + name, "theory": th.name, "goal": "magnitudes differ by more than tol => comparison agrees with exact order", "verdict": res})
            if res == "sat":
                R.candidates.append(E.cand("C02", "order", be, w, "cmp_all", [q], [ua, ub], E.model_amounts(model, [a, b], be), pair))
            elif res != "unsat":
                R.inconclusive.append("%s %s: solver answered %s" % (pair, name, res))
        if be == "f64":
            for desc_, f in th.side:
                res, _ = sv.check([box] + th.cons + [z3.Not(f)])
                R.oblig(pair + " range:" + desc_[:24], res == "unsat", True)
                if res != "unsat":
                    R.inconclusive.append("%s: T_re64 range side obligation not discharged (%s)" % (pair, desc_))
        if ua == w.units(q)[0] and ub == w.units(q)[-1]:
            res, _ = sv.check(hyp0 + [B - A > tl, E.z(cond["Less"])])
            R.vacuity.append("%s Less reachable with B-A>tol: %s" % (pair, res))
            if res != "sat":
                R.inconclusive.append("%s: vacuous order obligation" % pair)
            res, _ = sv.check(hyp0 + [B - A > tl, E.z(b_or(cond["Less"], cond[None]))])      # canary: claim Greater is required
            R.vacuity.append("%s canary (inverted expectation): %s" % (pair, res))
            if res != "sat":
                R.inconclusive.append("%s: canary with inverted expectation not refuted" % pair)
        # ------------------------------------------------ exactness + symmetry (T_uf, non-NaN)
        th = T.TUf(be, total=True)
        run = driver.Run(w, th, prune=False)
        a, b = th.var("a"), th.var("b")

        def cmp_pair(x, ux, y, uy):
            s = run.state()
            qx, qy = run.qty(s, q, x, ux), run.qty(s, q, y, uy)
            o1 = run.call(s, "<%s as PartialOrd>::partial_cmp" % q, [run.ref(s, qx), run.ref(s, qy)])
            s = run.state()
            qx, qy = run.qty(s, q, x, ux), run.qty(s, q, y, uy)
            o2 = run.call(s, "<%s as PartialEq>::eq" % q, [run.ref(s, qx), run.ref(s, qy)])
            return E.ord_conds(o1), E.bool_of(o2)

        def op_pair(x, ux, y, uy):
            """the six operators as the user gets them: generated impl bodies where the macro overrides them,
            std's provided methods (from partial_cmp / eq) otherwise"""
            out = {}
            for name, tr in (("lt", "PartialOrd"), ("le", "PartialOrd"), ("gt", "PartialOrd"), ("ge", "PartialOrd"), ("ne", "PartialEq")):
                s = run.state()
                qx, qy = run.qty(s, q, x, ux), run.qty(s, q, y, uy)
                out[name] = E.bool_of(run.call(s, "<%s as %s>::%s" % (q, tr, name), [run.ref(s, qx), run.ref(s, qy)]))
            return out

        c_ab, e_ab = cmp_pair(a, ua, b, ub)
        c_ba, e_ba = cmp_pair(b, ub, a, ua)
        o_ab = op_pair(a, ua, b, ub)
        o_ba = op_pair(b, ub, a, ua)
        R.absorb_exec(run.ex)
        sym = [
            ("a==b <=> b==a", e_ab, e_ba),
            ("a<b <=> b>a", o_ab["lt"], o_ba["gt"]),
            ("a>b <=> b<a", o_ab["gt"], o_ba["lt"]),
            ("a<=b <=> b>=a", o_ab["le"], o_ba["ge"]),
            ("Equal <=> ==", c_ab["Equal"], e_ab),
            ("a<b <=> partial_cmp Less", o_ab["lt"], c_ab["Less"]),
            ("a>b <=> partial_cmp Greater", o_ab["gt"], c_ab["Greater"]),
            ("a<=b <=> a<b or a==b", o_ab["le"], b_or(o_ab["lt"], e_ab)),
            ("a>=b <=> a>b or a==b", o_ab["ge"], b_or(o_ab["gt"], e_ab)),
            ("a!=b <=> not a==b", o_ab["ne"], b_not(e_ab)),
        ]
        failed_sym = []
        for name, l, r_ in sym:
            res, _ = sv.check(th.cons + [E.z(l) != E.z(r_)])
            if res == "unsat":
                R.oblig(pair + " " + name, True, True, {"obligation": pair + " " + name, "theory": "T_uf(total)", "verdict": res})
            else:
                failed_sym.append(name)
        if ua == ub:
            own = dict((o, c) for c, o in th.partial_cmp(a, b))
            for o in ("Less", "Equal", "Greater"):
                res, _ = sv.check(th.cons + [E.z(c_ab[o]) != E.z(own[o])])
                R.oblig(pair + " same-unit partial_cmp=%s" % o, res == "unsat", True)
                if res != "unsat":
                    R.candidates.append(E.cand("C02", "same-unit", be, w, "cmp_all", [q], [ua, ub], None, pair))
            res, _ = sv.check(th.cons + [E.z(e_ab) != E.z(th.cmp("Eq", a, b))])
            R.oblig(pair + " same-unit ==", res == "unsat", True)
            if res != "unsat":
                R.candidates.append(E.cand("C02", "same-unit", be, w, "cmp_all", [q], [ua, ub], None, pair))
        if failed_sym:
            # T_uf could not show symmetry: candidate.  Re-decide bit-precisely (f64) within the budget, replay natively.
            decided = False
            if be == "f64" and fp_budget > 0:
                fp = T.TFp()
                run2 = driver.Run(w, fp, prune=False)
                x, y = fp.var("a"), fp.var("b")

                def cmp_fp(p, up, r, ur):
                    s = run2.state()
                    qp, qr = run2.qty(s, q, p, up), run2.qty(s, q, r, ur)
                    o1 = run2.call(s, "<%s as PartialOrd>::partial_cmp" % q, [run2.ref(s, qp), run2.ref(s, qr)])
                    s = run2.state()
                    qp, qr = run2.qty(s, q, p, up), run2.qty(s, q, r, ur)
                    o2 = run2.call(s, "<%s as PartialEq>::eq" % q, [run2.ref(s, qp), run2.ref(s, qr)])
                    return E.ord_conds(o1), E.bool_of(o2)

                f_ab, fe_ab = cmp_fp(x, ua, y, ub)
                f_ba, fe_ba = cmp_fp(y, ub, x, ua)
                nonnan = [z3.Not(z3.fpIsNaN(x.term)), z3.Not(z3.fpIsNaN(y.term))]
                diffs = z3.Or(E.z(fe_ab) != E.z(fe_ba), E.z(f_ab["Less"]) != E.z(f_ba["Greater"]),
                              E.z(f_ab["Greater"]) != E.z(f_ba["Less"]), E.z(f_ab["Equal"]) != E.z(fe_ab))
                res, model = sv.check(nonnan + [diffs], want_model=True)
                if res == "unsat":
                    decided = True
                    for name in failed_sym:
                        R.oblig(pair + " " + name, True, True, {"obligation": pair + " " + name, "theory": "T_fp (bit-precise, after T_uf candidate)", "verdict": res})
                    failed_sym = []
                elif res == "sat":
                    am = [driver.fp_model_bits(model, x.term), driver.fp_model_bits(model, y.term)]
                    R.candidates.append(E.cand("C02", "symmetry", be, w, "cmp_all", [q], [ua, ub], am, pair, role="%s:symmetry" % be))
                    decided = True
            if be == "dec" and failed_sym and fp_budget > 0:
                # witness search for the decimal back-end under T_red (comparisons exact, mul/div within 1e-18)
                rd = T.TRed()
                run3 = driver.Run(w, rd, prune=False)
                x, y = rd.var("a"), rd.var("b")

                def cmp_rd(p, up, r, ur):
                    s = run3.state()
                    qp, qr = run3.qty(s, q, p, up), run3.qty(s, q, r, ur)
                    o1 = run3.call(s, "<%s as PartialOrd>::partial_cmp" % q, [run3.ref(s, qp), run3.ref(s, qr)])
                    s = run3.state()
                    qp, qr = run3.qty(s, q, p, up), run3.qty(s, q, r, ur)
                    o2 = run3.call(s, "<%s as PartialEq>::eq" % q, [run3.ref(s, qp), run3.ref(s, qr)])
                    return E.ord_conds(o1), E.bool_of(o2)

                d_ab, de_ab = cmp_rd(x, ua, y, ub)
                d_ba, de_ba = cmp_rd(y, ub, x, ua)
                diffs = z3.Or(E.z(de_ab) != E.z(de_ba), E.z(d_ab["Less"]) != E.z(d_ba["Greater"]),
                              E.z(d_ab["Greater"]) != E.z(d_ba["Less"]), E.z(d_ab["Equal"]) != E.z(de_ab))
                boxd = [E.box1(rd, x), E.box1(rd, y)]
                res, model = sv.check(boxd + rd.cons + [diffs], want_model=True)
                if res == "sat":
                    R.candidates.append(E.cand("C02", "symmetry", be, w, "cmp_all", [q], [ua, ub], E.model_amounts(model, [x, y], be), pair, role="%s:symmetry" % be))
                    decided = True
            for name in failed_sym:
                R.oblig(pair + " " + name, False, True, {"obligation": pair + " " + name, "theory": "T_uf(total)", "verdict": "sat (candidate)"})
            if failed_sym and not decided:
                R.candidates.append(E.cand("C02", "symmetry", be, w, "cmp_all", [q], [ua, ub], None, pair, role="%s:symmetry" % be))
    R.absorb_solver(sv)
    return R


def parse_cmp_all(out):
    p = out.split(" ")
    if p[0] != "C":
        return None
    def tb(x):
        return x == "true"
    f = dict(zip(["eq", "ne", "lt", "le", "gt", "ge"], map(tb, p[1:7])))
    f["pc"] = p[7]
    g = dict(zip(["eq", "ne", "lt", "le", "gt", "ge"], map(tb, p[8:14])))
    g["pc"] = p[14]
    return f, g


def oracle(c, out, scales):
    import math
    be = c["backend"]
    q = c["types"][0]
    ua, ub = c["units"]
    if out.startswith("PANIC"):
        return True, "comparison panicked: " + out
    r = parse_cmp_all(out)
    if r is None:
        return None, "unparsed " + out
    f, g = r
    a, b = E.amount_value(be, c["amounts"][0]), E.amount_value(be, c["amounts"][1])
    if be == "f64" and (math.isnan(a) or math.isnan(b)):
        return None, "NaN"
    desc = "a=%r %s, b=%r %s: a==b %s b==a %s | a<b %s b>a %s | a>b %s b<a %s | a<=b %s b>=a %s | partial_cmp %s / %s" % (
        a, ua, b, ub, f["eq"], g["eq"], f["lt"], g["gt"], f["gt"], g["lt"], f["le"], g["ge"], f["pc"], g["pc"])
    if f["eq"] != g["eq"] or f["lt"] != g["gt"] or f["gt"] != g["lt"] or f["le"] != g["ge"] or f["ge"] != g["le"]:
        return True, "order dependent: " + desc
    if (f["pc"] == "Some(Equal)") != f["eq"] or f["ne"] == f["eq"]:
        return True, "partial_cmp/==/!= inconsistent: " + desc
    if f["lt"] != (f["pc"] == "Some(Less)") or f["gt"] != (f["pc"] == "Some(Greater)") or f["le"] != (f["lt"] or f["eq"]) or f["ge"] != (f["gt"] or f["eq"]):
        return True, "<, <=, >, >= inconsistent with partial_cmp / ==: " + desc
    if be == "f64" and (math.isinf(a) or math.isinf(b)):
        return False, desc
    sa, sb = F(scales[q][ua]), F(scales[q][ub])
    A, B = F(a) * sa, F(b) * sb
    t = tol_value(be, a, b, sa, sb)
    if ua == ub:
        exp = dict(eq=a == b, ne=a != b, lt=a < b, le=a <= b, gt=a > b, ge=a >= b)
        if any(f[k] != exp[k] for k in exp):
            return True, "same-unit comparison differs from the amount type's own: " + desc
    if B - A > t and not (f["lt"] and f["le"] and f["ne"] and not f["gt"] and not f["ge"] and not f["eq"] and f["pc"] == "Some(Less)"):
        return True, "A < B by more than the tolerance but: " + desc
    if A - B > t and not (f["gt"] and f["ge"] and f["ne"] and not f["lt"] and not f["le"] and not f["eq"] and f["pc"] == "Some(Greater)"):
        return True, "A > B by more than the tolerance but: " + desc
    return False, desc


def probe_pairs(c, d):
    """amount pairs that denote equal or neighbouring magnitudes in the two units"""
    be = c["backend"]
    q = c["types"][0]
    ua, ub = c["units"]
    sa, sb = d["scales"][q][ua], d["scales"][q][ub]
    lit = (lambda x: F(repr(x))) if be == "f64" else F
    r = lit(sb) / lit(sa)          # a/b for equal magnitudes
    out = []
    for k in (1, 2, 3, 5, 7, 10, 60, 1000, -1, F(1, 2), F(1, 10)):
        av, bv = r.numerator * k, r.denominator * k
        for da, db in ((0, 0), (1, 0), (0, 1)):
            if be == "f64":
                x, y = float(av), float(bv)
                import math
                if da:
                    x = math.nextafter(x, math.inf)
                if db:
                    y = math.nextafter(y, math.inf)
                out.append([rgen.f64_bits(x), rgen.f64_bits(y)])
            else:
                x, y = F(av) + da * tol.EPS, F(bv) + db * tol.EPS
                if abs(x) < 10 ** 17 and abs(y) < 10 ** 17:
                    out.append([E.to_amount(be, x), E.to_amount(be, y)])
    zero = rgen.f64_bits(0.0) if be == "f64" else "0"
    special = [[zero, zero]]
    if be == "f64":
        special += [[rgen.f64_bits(-0.0), zero], [rgen.f64_bits(float("inf")), rgen.f64_bits(float("inf"))], [zero, rgen.f64_bits(5e-324)]]
    out = special + out
    for p in E.probe_amounts_2(c):
        out.append(p)
    return out[:64]


def run(report, tier):
    E.setup_report(report, "C02")
    backends = ["f64", "dec"]
    keys = E.dump_worlds(backends, fixture=True)
    from props import synthdefs as _sd
    rgen.EXTRA_SRC = _sd.SYNTH_RS
    pool = mpool.Pool()
    try:
        desc = E.describe_worlds(pool, keys)
        tasks = [(k, q, u, 2 if tier == "quick" else 8) for k, q, u in E.ref_tasks(keys, desc)]
        E.shuffle(tasks)
        report.bounds.update(E.bounds_box1())
        report.bounds["symmetry"] = "all non-NaN amounts (T_uf with totality of the amount order; T_fp bit-precise re-decision of candidates)"
        report.bounds["tolerance"] = "f64: |A-B| > 4u(|A|+|B|); decimal: |A-B| > 4e-18 (1+sa+sb)(1+|a|+|b|)"
        cands = pool.run(report, task, tasks)
        pool.cross_check(report)
        E.native_confirm(report, "C02", cands, desc, oracle, probes=probe_pairs)
        E.translator_validation(report, pool, desc, ops=("eq", "lt"), full=(tier == "thorough"))
    finally:
        pool.close()
