"""C10 Quantities without a reference unit never mix units silently -- E1 + E2.

E1 (Kani; Temperature, a synthetic 3-unit no-reference type, a synthetic single-unit
type; f64 any bit pattern, decimal with bounded coefficients):
  ==           <=> same unit and the amount type's ==         (symbolic units)
  partial_cmp  the amount type's when the units are equal, None otherwise
  + - /        different units: the only failing check is the documented panic! of
               Quantity::{add,sub,div} and the call never returns; same unit: no
               panic, unit kept
E2 (T_uf, both back-ends, Temperature): same-unit + - / amounts are the terms
fadd/fsub/fdiv(a,b); the panic condition is re-decided from the MIR (second engine).
"""
import os
import re

from engine import common
from engine.mirsmt import frontend, pool as mpool
from engine.kani.runner import KaniCrate, Harness, confirm_failures
from engine.replay import gen as rgen
from spec import catalogue
from props import e2common as E
from props import kanigen as G
from props import synthdefs


def panic_sites():
    """line ranges of the documented panics inside `trait Quantity` of /repo/src/lib.rs"""
    src = open(os.path.join(common.REPO, "src", "lib.rs")).read().split("\n")
    start = next(i for i, l in enumerate(src) if l.startswith("pub trait Quantity"))
    end = next(i for i, l in enumerate(src) if i > start and l.startswith("pub trait HasRefUnit"))
    sites = {}
    cur = None
    for i in range(start, end):
        m = re.match(r"\s*fn (add|sub|div)\(self, rhs: Self\)", src[i])
        if m:
            cur = m.group(1)
            sites[cur] = [i + 1, i + 1]
        elif cur and re.match(r"\s*fn \w+", src[i]):
            cur = None
        elif cur:
            sites[cur][1] = i + 1
    return sites


def task(t):
    import z3
    from engine.mirsmt import driver, theories as T
    key, q = t
    w = mpool.world(key)
    be = w.backend
    R = mpool.TaskResult()
    sv = driver.Solver(timeout_ms=E.query_timeout_ms())
    for ua in w.units(q):
        for ub in w.units(q):
            pair = "%s %s:%s,%s" % (be, q, ua, ub)
            th = T.TUf(be, total=True)
            run = driver.Run(w, th, prune=False)
            a, b = th.var("a"), th.var("b")
            for op, trait in (("add", "Add"), ("sub", "Sub"), ("div", "Div")):
                st = run.state()
                qa, qb = run.qty(st, q, a, ua), run.qty(st, q, b, ub)
                outs = run.call(st, "<%s as %s>::%s" % (q, trait, op), [qa, qb])
                if ua != ub:
                    ok = bool(outs) and all(o.panic == "explicit panic" for o in outs)
                    R.oblig("%s %s panics" % (pair, op), ok, False)
                    if not ok:
                        R.candidates.append(E.cand("C10", "no-panic", be, w, {"add": "add", "sub": "sub", "div": "ratio"}[op], [q], [ua, ub], None, pair + " " + op))
                else:
                    ok = len(outs) == 1 and not outs[0].panic
                    if ok:
                        o = outs[0]
                        r = o.value if op == "div" else run.amount_of(o.state, q, o.value)
                        if op != "div":
                            ok = run.unit_of(o.state, q, o.value) == ua
                        res, _ = sv.check(th.cons + o.pc + [r.term != th.bin(trait, a, b).term])
                        ok = ok and res == "unsat"
                    R.oblig("%s %s exact" % (pair, op), ok, True, {"obligation": "%s %s exact" % (pair, op), "theory": "T_uf", "goal": "same unit: result is f%s(a,b) in that unit, no panic" % op})
                    if not ok:
                        R.candidates.append(E.cand("C10", "exact", be, w, {"add": "add", "sub": "sub", "div": "ratio"}[op], [q], [ua, ub], None, pair + " " + op))
            # ==, partial_cmp
            st = run.state()
            qa, qb = run.qty(st, q, a, ua), run.qty(st, q, b, ub)
            oe = run.call(st, "<%s as PartialEq>::eq" % q, [run.ref(st, qa), run.ref(st, qb)])
            st = run.state()
            qa, qb = run.qty(st, q, a, ua), run.qty(st, q, b, ub)
            oc = run.call(st, "<%s as PartialOrd>::partial_cmp" % q, [run.ref(st, qa), run.ref(st, qb)])
            eqf = E.bool_of(oe)
            cond = E.ord_conds(oc)
            if ua != ub:
                res1, _ = sv.check(th.cons + [E.z(eqf)])
                res2, _ = sv.check(th.cons + [z3.Not(E.z(cond[None]))])
                ok = res1 == "unsat" and res2 == "unsat"
            else:
                own = dict((o, c) for c, o in th.partial_cmp(a, b))
                res1, _ = sv.check(th.cons + [E.z(eqf) != E.z(th.cmp("Eq", a, b))])
                ok = res1 == "unsat"
                for o in ("Less", "Equal", "Greater"):
                    r_, _ = sv.check(th.cons + [E.z(cond[o]) != E.z(own[o])])
                    ok = ok and r_ == "unsat"
            R.oblig(pair + " ==/partial_cmp", ok, True, {"obligation": pair + " ==/partial_cmp", "theory": "T_uf", "goal": "equal only with same unit and amount; unordered across units"})
            if not ok:
                R.candidates.append(E.cand("C10", "cmp", be, w, "cmp_all", [q], [ua, ub], None, pair + " cmp"))
            R.absorb_exec(run.ex)
    R.absorb_solver(sv)
    return R


def oracle(c, out, scales):
    import math
    be = c["backend"]
    ua, ub = c["units"]
    a, b = E.amount_value(be, c["amounts"][0]), E.amount_value(be, c["amounts"][1])
    if c["op"] == "cmp_all":
        from props import C02
        r = C02.parse_cmp_all(out)
        if r is None:
            return None, out
        f, g = r
        if be == "f64" and (math.isnan(a) or math.isnan(b)):
            return None, "NaN"
        if ua != ub:
            bad = f["eq"] or f["pc"] != "None" or f["lt"] or f["gt"] or f["le"] or f["ge"]
            return bad, "different units %s/%s: == %s, partial_cmp %s" % (ua, ub, f["eq"], f["pc"])
        exp = dict(eq=a == b, lt=a < b, gt=a > b)
        bad = any(f[k] != exp[k] for k in exp)
        return bad, "same unit: %s" % out
    unit, r = rgen.parse_q(be, out)
    if ua != ub:
        return (unit != "PANIC"), "different units %s/%s: %s returned %s" % (ua, ub, c["op"], out)
    if c["op"] == "ratio" and b == 0 and be == "dec":
        # the amount type's own division panics on a zero divisor; so must the quantity
        return (unit != "PANIC"), "same unit, zero divisor: decimal division panics, the quantity division returned %s" % out
    if unit == "PANIC":
        return True, "same unit but panicked: " + out
    if be == "f64":
        want = {"add": lambda: a + b, "sub": lambda: a - b, "ratio": lambda: (a / b) if b != 0 else (math.copysign(math.inf, a) * math.copysign(1.0, b) if a != 0 and not math.isnan(a) else math.nan)}[c["op"]]()
        if math.isnan(want):
            return (not math.isnan(r)), "same unit %s of %r and %r: %r, amount type gives NaN" % (c["op"], a, b, r)
        return (rgen.f64_bits(r) != rgen.f64_bits(want)), "same unit %s of %r and %r: %r, amount type gives %r" % (c["op"], a, b, r, want)
    return False, out


def kani_types(backend):
    out = [(catalogue.by_name("Temperature"), "quantities::temperature::")]
    out.append((synthdefs.TRI, "crate::synth::"))
    return out


def add_noref(kc, q, backend, sites, coeff_bits=40):
    T = q.name.upper()
    p = G.qpath(q)
    Q = p + q.name
    n = len(q.units)
    keyp = "%s %s" % (backend, q.name)
    if backend == "f64":
        amt = "let a: f64 = kani::any();\n        let b: f64 = kani::any();"
    else:
        amt = ("let ca: i64 = kani::any();\n        let cb: i64 = kani::any();\n        kani::assume(ca > -(1i64 << %d) && ca < (1i64 << %d) && cb > -(1i64 << %d) && cb < (1i64 << %d));\n"
               "        let a = Decimal::new_raw(ca as i128, 3);\n        let b = Decimal::new_raw(cb as i128, 3);") % (coeff_bits, coeff_bits, coeff_bits, coeff_bits)
    head = """
        %(amt)s
        let i: usize = kani::any();
        let j: usize = kani::any();
        kani::assume(i < %(T)s_N && j < %(T)s_N);
        let qa = <%(Q)s as Quantity>::new(a, %(T)s_IDENTS[i]);
        let qb = <%(Q)s as Quantity>::new(b, %(T)s_IDENTS[j]);
    """ % {"amt": amt, "T": T, "Q": Q}
    kc.add(Harness("cmp_" + q.name.lower(), head + """
        assert!((qa == qb) == (i == j && a == b), "equal only with the same unit and the same amount");
        assert!((qa != qb) == !(i == j && a == b));
        let pc = PartialOrd::partial_cmp(&qa, &qb);
        if i == j { assert!(pc == PartialOrd::partial_cmp(&a, &b), "same unit: the amount type's ordering"); } else { assert!(pc.is_none(), "values in different units are unordered"); }
        if i != j { assert!(!(qa < qb) && !(qa <= qb) && !(qa > qb) && !(qa >= qb)); }
        kani::cover!(i != j, "different units");
        kani::cover!(i == j && pc.is_some(), "same unit, ordered");
    """, unwind=n + 2, key=keyp + " ==/partial_cmp",
                   sample={"harness": "cmp_" + q.name.lower(), "symbolic": "amounts (f64: any bit pattern), unit indices i, j", "asserts": "== iff same unit and amount; partial_cmp None across units"}))
    for op, sym in (("add", "+"), ("sub", "-"), ("div", "/")):
        kc.add(Harness("%s_diff_%s" % (op, q.name.lower()), head + """
        kani::assume(i != j);
        let _r = qa %s qb;
        kani::cover!(true, "returned");
        """ % sym, expect="panic", panic_file="src/lib.rs", panic_lines=sites[op], unwind=n + 2, key="%s %s different units panics" % (keyp, op),
                       sample={"harness": "%s_diff_%s" % (op, q.name.lower()), "symbolic": "amounts, unit indices i != j",
                               "asserts": "only failing check is the documented panic! (lib.rs:%d-%d); code after the call unreachable" % tuple(sites[op])}))
        if op == "div" and backend == "dec":
            continue    # symbolic 128-bit decimal division does not finish in CBMC; same-unit `/` is decided by E2 (T_uf) from the MIR
        if op == "div":
            same = "kani::assume(i == j);\n        %s\n        let r = qa / qb;\n        kani::cover!(true, \"division returned\");" % (
                "kani::assume(cb != 0);" if backend == "dec" else "")
        else:
            same = "kani::assume(i == j);\n        let r = qa %s qb;\n        assert!(r.unit() == %s_IDENTS[i], \"result keeps the common unit\");" % (sym, T)
        kc.add(Harness("%s_same_%s" % (op, q.name.lower()), head + "        " + same + "\n        kani::cover!(i == %s_N - 1, \"last unit\");\n" % T,
                       unwind=n + 2, key="%s %s same unit" % (keyp, op)))


def add_single(kc, q, backend):
    p = G.qpath(q)
    Q = p + q.name
    U = p + q.unit_type
    v = q.units[0].variant
    if backend == "f64":
        amt = "let a: f64 = kani::any();\n        let b: f64 = kani::any();"
        chk = "assert!((qa + qb).amount().to_bits() == (a + b).to_bits() || (a + b).is_nan());"
    else:
        amt = "let ca: i32 = kani::any();\n        let cb: i32 = kani::any();\n        let a = Decimal::new_raw(ca as i128, 2);\n        let b = Decimal::new_raw(cb as i128, 2);\n        kani::assume(cb != 0);"
        chk = "assert!((qa + qb).amount() == a + b);"
    kc.add(Harness("single_" + q.name.lower(), """
        %(amt)s
        let qa = <%(Q)s as Quantity>::new(a, %(U)s::%(v)s);
        let qb = b * %(U)s::%(v)s;
        assert!(qa.unit() == %(U)s::%(v)s && qb.unit() == %(U)s::%(v)s, "a single-unit type always reports its unit");
        assert!((qa + qb).unit() == %(U)s::%(v)s);
        assert!((qa - qb).unit() == %(U)s::%(v)s);
        %(ratio)s
        %(chk)s
        let mut n = 0;
        for u in <%(U)s as Unit>::iter() { assert!(u == %(U)s::%(v)s); n += 1; }
        assert!(n == 1);
        kani::cover!(true, "plain amount arithmetic never panics");
    """ % {"amt": amt, "Q": Q, "U": U, "v": v, "chk": chk, "ratio": "let _ratio = qa / qb;" if backend == "f64" else "// decimal division: loops of the 256-bit division are outside CBMC's reach; decided by E2"}, unwind=4, key="%s %s single unit" % (backend, q.name)))


def kani_part(report, tier, backend):
    sites = panic_sites()
    pre = G.PRELUDE + synthdefs.SYNTH_RS + ("use quantities::Decimal;\n" if backend == "dec" else "")
    temp = catalogue.by_name("Temperature")
    pre += G.tables(temp, backend) + G.tables(synthdefs.TRI, backend) + G.tables(synthdefs.PILE, backend) + G.tables(synthdefs.HEAT, backend)
    kc = KaniCrate("c10" + backend[0], backend, extra_src=pre)
    add_noref(kc, temp, backend, sites)
    add_noref(kc, synthdefs.TRI, backend, sites)
    add_noref(kc, synthdefs.HEAT, backend, sites)        # two different units share a symbol
    add_single(kc, synthdefs.PILE, backend)
    report.bounds["kani_%s" % backend] = ("amounts: every f64 bit pattern" if backend == "f64" else "amounts: Decimal::new_raw(c, 3), |c| < 2^40") + \
        "; units: all ordered pairs by symbolic indices; types: Temperature, synthetic no-reference Tri and Heat (two units sharing a symbol), synthetic single-unit Pile"
    report.notes.append("documented panic sites read from /repo/src/lib.rs: %s" % sites)
    kc.run(report, timeout=600 if tier == "quick" else 3000)
    return kc


def native_panic_confirm(kc_map):
    def confirm(crate, h, r):
        """must-panic mismatch: run the operation natively on a few amounts for every ordered pair of different units"""
        m = re.match(r"^(add|sub|div)_diff_(\w+)$", h.name)
        if not m or m.group(2) != "temperature":
            return None
        op = {"add": "add", "sub": "sub", "div": "ratio"}[m.group(1)]
        be = crate.backend
        us = [u.variant for u in catalogue.by_name("Temperature").units]
        amts = E.probes(be)[:2]
        cases = [{"backend": be, "op": op, "types": ["Temperature"], "units": [x, y], "amounts": [amts[0], amts[1]],
                  "paths": {"Temperature": "quantities::temperature::Temperature"}} for x in us for y in us if x != y]
        outs = rgen.ReplayCrate(be, name="c10-replay-" + be).run(cases)
        bad = [(c["units"], o) for c, o in zip(cases, outs) if not o.startswith("PANIC")]
        site_bad = [f for f in r.failed]
        if bad:
            return True, {"property": "C10", "what": "%s of different units returned a value natively: %s" % (op, bad[:3]), "cases": cases[:6], "outputs": outs[:6]}
        return False, {}
    return confirm


def run(report, tier):
    E.setup_report(report, "C10")
    report.trusted += ["Kani 0.68 / CBMC 6.11; Kani models panic! as a failing check at the macro site (message not built)"]
    backends = ["f64", "dec"]
    import concurrent.futures as cf
    keys = E.dump_worlds(backends, astro=False, fixture=True)
    rgen.EXTRA_SRC = synthdefs.SYNTH_RS
    pool = mpool.Pool(jobs=max(2, common.ncpu() - 10))
    try:
        with cf.ThreadPoolExecutor(max_workers=2) as ex:
            futs = [ex.submit(kani_part, report, tier, be) for be in backends]
            desc = E.describe_worlds(pool, keys)
            tasks = [(keys[label], q) for label in keys for q in desc[label]["qty"] if not desc[label]["has_ref"][q]
                     and not (label.startswith("fix") and q not in desc[label].get("own", []))
                     and len(desc[label]["units"][q]) > 1]
            report.bounds["e2"] = "Temperature and the synthetic no-reference types Tri and Tariff in both back-ends: all ordered unit pairs, uninterpreted amounts"
            cands = pool.run(report, task, tasks)
            pool.cross_check(report)
            E.native_confirm(report, "C10", cands, desc, oracle, probes=E.probe_amounts_2)
            for f in futs:
                f.result()
        confirm_failures(report, native_confirm=native_panic_confirm(None))
    finally:
        pool.close()
