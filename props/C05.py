"""C05 Derived results use the natural or the best-fitting unit -- E2 + E1.

E2 (both back-ends), per operator instance and operand unit pair:
  natural   sa o sb (computed in the amount type from the code's scales) is the scale of
            a unit of the result type  =>  single path, result unit has that scale,
            amount is exactly the term a o b (T_uf); reference x reference => reference unit
  fitted    otherwise every path's unit is eligible and is a correct choice for *some*
            value within rounding of the exact magnitude M = (a o b)(sa o sb):
            largest eligible scale <= M, or the smallest eligible unit if none (T_re64 / T_red)
E1 (f64, any bit pattern x): `R::_fit(x).unit()` obeys the rule exactly, for every result type.
"""
from fractions import Fraction as F

from engine.mirsmt import frontend, pool as mpool
from engine.replay import gen as rgen
from engine.kani.runner import KaniCrate, Harness, confirm_failures
from spec import tolerances as tol
from spec import catalogue
from props import e2common as E
from props import derived as D


def task(t):
    import z3
    from engine.mirsmt import driver, theories as T
    key, inst, ua = t
    inst = tuple(inst)
    w = mpool.world(key)
    be = w.backend
    R = mpool.TaskResult()
    sv = driver.Solver(timeout_ms=E.query_timeout_ms())
    A_, op, B_, Rt = inst
    trait = D.trait_of(op)
    for ub in w.units(B_):
        pair = "%s %s[%s] %s %s[%s]" % (be, A_, ua, op, B_, ub)
        nu, s = D.natural_unit(w, inst, ua, ub) if Rt != w.AMT else ("One", None)
        if Rt == w.AMT:
            # dimensionless result: always the amount itself; natural iff scale is one -- nothing to choose
            nu = "One" if D.fold_scale(w, inst, ua, ub) == 1 else None
        if nu is not None:
            th = T.TUf(be, total=True)
            run = driver.Run(w, th, prune=False)
            a, b = th.var("a"), th.var("b")
            outs = D.run_op(run, run.state(), inst, ua, ub, a, b)
            R.absorb_exec(run.ex)
            ok = len(outs) == 1 and not outs[0].panic
            if ok:
                wu, r = D.result_parts(run, inst, outs[0])
                same_scale = (Rt == w.AMT) or (w.scale_exact(Rt, wu) == s)
                R.oblig(pair + " natural unit", same_scale, False)
                if not same_scale:
                    R.candidates.append(E.cand("C05", "natural-unit", be, w, op, [A_, B_, Rt], [ua, ub], None, pair, form="vv", note="unit %s" % wu))
                is_ref = Rt != w.AMT and ua == w.ref_unit(A_) and ub == w.ref_unit(B_)
                if is_ref:
                    R.oblig(pair + " ref x ref -> ref", wu == w.ref_unit(Rt), False)
                    if wu != w.ref_unit(Rt):
                        R.candidates.append(E.cand("C05", "ref-unit", be, w, op, [A_, B_, Rt], [ua, ub], None, pair, form="vv", note="unit %s" % wu))
                want = th.bin(trait, a, b)
                res, _ = sv.check(th.cons + outs[0].pc + [r.term != want.term])
                R.oblig(pair + " natural amount", res == "unsat", True, {"obligation": pair + " natural amount", "theory": "T_uf", "goal": "amount is the term f%s(a,b), unit %s" % (trait.lower(), wu)})
                if res != "unsat":
                    R.candidates.append(E.cand("C05", "natural-amount", be, w, op, [A_, B_, Rt], [ua, ub], None, pair, form="vv"))
            else:
                R.oblig(pair + " natural single path", False, True)
                R.candidates.append(E.cand("C05", "natural-path", be, w, op, [A_, B_, Rt], [ua, ub], None, pair, form="vv",
                                           note="scale product %s is the scale of %s but the result is fitted" % (s, nu)))
            continue
        if Rt == w.AMT:
            # dimensionless result whose scale product is not one: the only unit is ONE, so the amount must be
            # (a o b) multiplied by the scale product, computed in the amount type (T_uf: the very term)
            th = T.TUf(be, total=True)
            run = driver.Run(w, th, prune=False)
            a, b = th.var("a"), th.var("b")
            outs = D.run_op(run, run.state(), inst, ua, ub, a, b)
            R.absorb_exec(run.ex)
            s_ = D.fold_scale(w, inst, ua, ub)
            ok = len(outs) == 1 and not outs[0].panic and s_ is not None
            if ok:
                want = th.bin("Mul", th.bin(trait, a, b), th.const(s_))
                res, _ = sv.check(th.cons + outs[0].pc + [outs[0].value.term != want.term])
                ok = res == "unsat"
            R.oblig(pair + " dimensionless amount", ok, True, {"obligation": pair + " dimensionless amount", "theory": "T_uf", "goal": "amount is (a o b) * (sa o sb) computed in the amount type"})
            if not ok:
                R.candidates.append(E.cand("C05", "dimensionless", be, w, op, [A_, B_, Rt], [ua, ub], None, pair, form="vv"))
            continue
        # ---------------------------------------------- fitted path
        th = T.TRe64() if be == "f64" else T.TRed()
        run = driver.Run(w, th)
        a, b = th.var("a"), th.var("b")
        box = z3.And(E.box1(th, a, tol.BOX64_2), E.box_nz(th, b, tol.BOX64_2) if op == "div" else E.box1(th, b, tol.BOX64_2))
        run.assume(box)
        outs = D.run_op(run, run.state(), inst, ua, ub, a, b)
        R.absorb_exec(run.ex)
        sa, sb = w.scale_fr(A_, ua), w.scale_fr(B_, ub)
        ss = sa * sb if op == "mul" else sa / sb
        ab = a.term * b.term if op == "mul" else a.term / b.term
        M = ab * T.Q(ss)
        if be == "f64":
            slack = T.Q(tol.K64 * tol.U) * T.zabs(M)
        else:
            slack = T.Q(tol.KDEC * tol.EPS) * (1 + T.Q(ss) + T.zabs(ab))
        lo, hi = M - slack, M + slack
        elig = w.eligible(Rt)
        esc = {u: w.scale_fr(Rt, u) for u in elig}
        smin = min(esc.values())
        for o in outs:
            if o.panic:
                R.oblig(pair + " no-panic", False)
                R.candidates.append(E.cand("C05", "panic", be, w, op, [A_, B_, Rt], [ua, ub], None, pair, form="vv", note=o.panic))
                continue
            wu, r = D.result_parts(run, inst, o)
            pk = pair + " ->" + wu
            if wu not in esc:
                R.oblig(pk + " eligible", False, False)
                R.candidates.append(E.cand("C05", "eligible", be, w, op, [A_, B_, Rt], [ua, ub], None, pair, form="vv", note="unit %s not eligible" % wu))
                continue
            sw = esc[wu]
            # exists m in [lo, hi]: rule(m, w)   <=>  not (for all m: not rule)
            # rule(m,w): (sw <= m and no eligible v: sw < sv <= m) or (all eligible sv > m and sw == smin)
            bigger = [sv for sv in esc.values() if sv > sw]
            nxt = min(bigger) if bigger else None
            c1 = z3.And(T.Q(sw) <= hi, (lo < T.Q(nxt)) if nxt is not None else z3.BoolVal(True))
            c2 = z3.And(lo < T.Q(smin), z3.BoolVal(sw == smin))
            goal = z3.Or(c1, c2)
            hyp = [box] + th.cons + o.pc + ([f for _, f in th.side] if be == "dec" else [])
            res, model = sv.check(hyp + [z3.Not(goal)], want_model=True, keep_sample=True)
            R.oblig(pk + " best fit", res == "unsat", True, {"obligation": pk + " best fit", "theory": th.name, "verdict": res,
                                                            "goal": "unit is the largest eligible scale <= M (or the smallest eligible) for some M within rounding of (a o b)*%s" % ss})
            if res == "sat":
                R.candidates.append(E.cand("C05", "fit", be, w, op, [A_, B_, Rt], [ua, ub], E.model_amounts(model, [a, b], be), pair, form="vv"))
            elif res != "unsat":
                R.inconclusive.append("%s: solver answered %s" % (pk, res))
        if ua == w.units(A_)[0]:
            good = [o for o in outs if not o.panic]
            R.vacuity.append("%s: %d fitted paths" % (pair, len(good)))
            if len(good) < 2 and len(set(esc.values())) > 1:
                R.notes.append("%s: a single fitted path is feasible inside the amount box although %d units are eligible" % (pair, len(elig)))
    R.absorb_solver(sv)
    return R


def oracle(c, out, scales, prefixes=None):
    import math
    be, op = c["backend"], c["op"]
    A_, B_, Rt = c["types"]
    ua, ub = c["units"]
    a, b = E.amount_value(be, c["amounts"][0]), E.amount_value(be, c["amounts"][1])
    if be == "f64" and not (math.isfinite(a) and math.isfinite(b)):
        return None, "non-finite input"
    if op == "div" and b == 0:
        return None, "zero divisor"
    unit, r = rgen.parse_q(be, out)
    if unit == "PANIC":
        return (be == "f64"), "panicked: %s" % r
    if Rt in ("f64", "Decimal"):
        from engine.mirsmt import theories as T0
        th0 = T0.Theory(be)
        s0 = th0.fold("Mul" if op == "mul" else "Div", scales[A_][ua], scales[B_][ub])
        ab0 = th0.fold("Mul" if op == "mul" else "Div", a, b)
        if s0 is None or ab0 is None:
            return None, "dimensionless, not computable"
        want = ab0 if s0 == 1 else th0.fold("Mul", ab0, s0)
        if want is None:
            return None, "dimensionless, not computable"
        return (F(r) != F(want)), "dimensionless result %s, expected (a o b)*(sa o sb) = %s" % (r, want)
    if unit not in scales[Rt]:
        return True, "result unit %s is not a unit of %s" % (unit, Rt)
    from engine.mirsmt import theories as T
    th = T.Theory(be)
    sa, sb = scales[A_][ua], scales[B_][ub]
    s = th.fold("Mul" if op == "mul" else "Div", sa, sb)
    text = "(%s %s) %s (%s %s) = %s %s" % (a, ua, "*" if op == "mul" else "/", b, ub, r, unit)
    nat = [u for u in scales[Rt] if scales[Rt][u] == s]
    if nat:
        if scales[Rt][unit] != s:
            return True, text + "; scale product %s is the scale of %s" % (s, nat[0])
        exact = th.fold("Mul" if op == "mul" else "Div", a, b)
        if exact is not None and F(r) != F(exact):
            return True, text + "; natural unit but amount is not a o b = %s" % exact
        if c.get("kind") == "ref-unit":
            return (unit != c.get("ref_unit", unit)), text
        return False, text
    pf = c.get("prefixes") or {}
    elig = [u for u in scales[Rt] if pf.get(u) is not None] if pf.get(c.get("ref_unit")) is not None else list(scales[Rt])
    if unit not in elig:
        return True, text + "; unit not eligible"
    ab = F(a) * F(b) if op == "mul" else F(a) / F(b)
    ss = F(sa) * F(sb) if op == "mul" else F(sa) / F(sb)
    M = ab * ss
    slack = tol.K64 * tol.U * abs(M) if be == "f64" else tol.KDEC * tol.EPS * (1 + ss + abs(ab))
    lo, hi = M - slack, M + slack
    esc = {u: F(scales[Rt][u]) for u in elig}
    sw = esc[unit]
    smin = min(esc.values())
    bigger = [v for v in esc.values() if v > sw]
    ok = (sw <= hi and (not bigger or lo < min(bigger))) or (lo < smin and sw == smin)
    return (not ok), text + "; magnitude %.17g" % float(M)


def kani_fit(report, tier):
    from props import synthdefs
    kc = KaniCrate("c05", "f64", extra_src=KANI_PRELUDE + synthdefs.SYNTH_RS)
    fixture = [synthdefs.DOSE, synthdefs.CHARGE, synthdefs.BUCKET, synthdefs.PRESSURE]
    for q in catalogue.CATALOGUE + fixture:
        if q.ref is None:
            continue
        n = len(q.units)
        path = ("quantities::%s::%s" % (q.module, q.name)) if q.crate == "quantities" else ("crate::synth::" + q.name)
        ref_si = q.unit(q.ref).prefix is not None
        el = [u for u in q.units if (u.prefix is not None or not ref_si)]
        extra = 'kani::cover!(w.scale() <= x && !w.is_ref_unit(), "fitted to a non-reference unit");' if len(set(u.scale for u in el)) > 1 else ""
        kc.add(Harness("fit_rule_%s" % q.name.lower(), """
        let x: f64 = kani::any();
        let fitted = <%(p)s as HasRefUnit>::_fit(x);
        let w = fitted.unit();
        let take_all = <%(p)s as HasRefUnit>::REF_UNIT.si_prefix().is_none();
        assert!(take_all || w.si_prefix().is_some(), "chosen unit is eligible");
        let i: usize = kani::any();
        kani::assume(i < %(n)d);
        let v: %(p)sUnit = nth_unit(i);
        if take_all || v.si_prefix().is_some() {
            if w.scale() <= x {
                assert!(!(w.scale() < v.scale() && v.scale() <= x), "no eligible unit between the chosen scale and the magnitude");
            } else {
                assert!(!(v.scale() <= x), "a unit not exceeding the magnitude exists but a larger one was chosen");
                assert!(w.scale() <= v.scale(), "fallback is the smallest eligible unit");
            }
        }
        kani::cover!(w.scale() <= x, "a unit not exceeding the magnitude exists");
        %(extra)s
        kani::cover!(!(w.scale() <= x), "fallback reached");
        """ % {"p": path, "n": n, "extra": extra}, unwind=n + 2, key="f64 %s::_fit rule" % q.name,
                       sample={"harness": "fit_rule_" + q.name.lower(), "symbolic": "x: any f64 bit pattern, v: any unit of the type",
                               "asserts": "chosen unit eligible; largest eligible scale <= x, else smallest eligible"}))
    kc.add(Harness("canary_must_fail", """
        let x: f64 = kani::any();
        let w = <quantities::area::Area as HasRefUnit>::_fit(x).unit();
        assert!(w.is_ref_unit());
    """, expect="fail", unwind=14, key="canary", symbolic=False))
    report.functions.update(["HasRefUnit::_fit (compiled, real core::iter)", "generated scale/si_prefix/iter"])
    report.bounds["kani_fit"] = "every f64 bit pattern x (NaN, +-inf, +-0, subnormals), every unit by symbolic index; unwind = units + 2; 13 catalogue result types and 4 synthetic types (one whose reference unit has no SI prefix although other units have one)"
    kc.run(report, timeout=(480 if tier == "quick" else 3000))
    confirm_failures(report)


KANI_PRELUDE = """
fn nth_unit<U: Unit>(i: usize) -> U {
    let mut k = 0usize;
    for u in U::iter() {
        if k == i { return u; }
        k += 1;
    }
    panic!("index out of range");
}
"""


def run(report, tier):
    E.setup_report(report, "C05")
    backends = ["f64", "dec"]
    import concurrent.futures as cf
    keys = E.dump_worlds(backends)
    pool = mpool.Pool(jobs=max(2, __import__("engine.common", fromlist=["x"]).ncpu() - 6))
    try:
        with cf.ThreadPoolExecutor(max_workers=1) as ex:
            fut = ex.submit(kani_fit, report, tier)
            desc = E.describe_worlds(pool, keys)
            tasks = [(keys[label], inst, ua) for label in keys for inst in desc[label]["operators"] for ua in desc[label]["units"][inst[0]]]
            E.shuffle(tasks)
            report.bounds.update({
                "f64_amount_box": "a, b = 0 or 2^-400 <= |.| <= 2^400 (divisor non-zero)",
                "decimal_amount_box": "|a|, |b| <= 1e17 (divisor non-zero), paths without fpdec overflow",
                "units": "every operand unit pair of each operator instance"})
            cands = pool.run(report, task, tasks)
            for c in cands:
                wl = c.get("world", c["backend"])
                c["prefixes"] = desc[wl]["prefix"].get(c["types"][2], {})
                c["ref_unit"] = desc[wl]["ref_unit"].get(c["types"][2])
            pool.cross_check(report)
            E.native_confirm(report, "C05", cands, desc, oracle, probes=E.probe_amounts_2)
            E.translator_validation(report, pool, desc, ops=("fit",), full=(tier == "thorough"))
            fut.result()
    finally:
        pool.close()
