"""C11 Generated types reflect their declaration in any order or literal form.

Bounded in the *program* dimension: K seeded well-formed definitions (quick 6, thorough 24; each
also with permuted attribute order, plus a derived product and quotient) are expanded by the real
macro; an independent Python reading of each declaration gives the expected registry.  What the
solver decides per definition: the C07/C09/C08 harness families (Kani: every unit by symbolic index,
every f64 bit pattern) in both amount back-ends and the C01/C03/C04/C05 obligations (E2: all amounts
in the box, every unit pair) on the MIR of the corpus crate.  The quantifier over programs is sampled.
"""
import os

from engine import common
from engine.kani.runner import KaniCrate, Harness, confirm_failures
from engine.mirsmt import frontend, pool as mpool
from engine.replay import gen as rgen
from engine.synth import gen_defs
from props import kanigen as G
from props import e2common as E
from props import C07, C09, C01, C03, C04, C05


def specs(defs, twins, derived):
    out = [d.spec for d in defs]
    out += [gen_defs.twin_spec(d, order, d.name + "P") for d, order in twins]
    out += [d.spec for d in derived]
    return out


def kani_part(report, tier, backend, src, allspecs, derived, defs):
    from props import synthdefs
    pre = G.PRELUDE + ("use quantities::Decimal;\n" if backend == "dec" else "") + src + synthdefs.SYNTH_RS
    for q in allspecs + synthdefs.ALL:
        pre += G.tables(q, backend)
    kc = KaniCrate("c11" + backend[0], backend, extra_src=pre)
    for q in synthdefs.ALL:           # the fixed synthetic definitions: declared names / symbols / prefixes / scales
        h = C07.harness_f64(q) if backend == "f64" else C07.harness_dec(q)
        h.name = "table_fix_" + q.name.lower()
        h.key = "%s fixture %s table" % (backend, q.name)
        kc.add(h)
    for q in allspecs:
        h = C07.harness_f64(q) if backend == "f64" else C07.harness_dec(q)
        h.name = "table_" + q.name.lower()
        h.key = "%s corpus %s table" % (backend, q.name)
        kc.add(h)
        C09.add_type(kc, q, backend, "", 2, False, backend == "f64")
    if backend == "f64":
        for q in allspecs:
            T = q.name.upper()
            kc.add(Harness("store_" + q.name.lower(), """
        let a: f64 = kani::any();
        let k: f64 = kani::any();
        let i: usize = kani::any();
        kani::assume(i < %(T)s_N);
        let u = %(T)s_IDENTS[i];
        let q1 = <%(Q)s as Quantity>::new(a, u);
        assert!(q1.amount().to_bits() == a.to_bits() && q1.unit() == u);
        let q2 = a * u;
        let q3 = u * a;
        assert!(q2.amount().to_bits() == a.to_bits() && q2.unit() == u && q3.amount().to_bits() == a.to_bits() && q3.unit() == u);
        assert!((k * q1).unit() == u && (q1 * k).unit() == u && (q1 / k).unit() == u);
        kani::cover!(i == %(T)s_N - 1, "last unit");
        """ % {"T": T, "Q": G.qpath(q) + q.name}, unwind=len(q.units) + 2, key="f64 corpus %s constructors/scalar operators" % q.name))
        for d in derived:
            a_, op, b_ = d.derived
            A, B, R = ["crate::corpus::%s::%s" % (x.lower(), x) for x in (a_, b_, d.name)]
            na = max(len(s.units) for s in allspecs if s.name in (a_, b_, d.name))
            if op == "*":
                body = "let r1: %s = x * y;\n        let r2: %s = y * x;\n        let r3: %s = r1 / y;\n        let r4: %s = r1 / x;\n        let r5: %s = &x * &y;" % (R, R, A, B, R)
            else:
                body = "let r1: %s = x / y;\n        let r2: %s = r1 * y;\n        let r3: %s = y * r1;\n        let r4: %s = x / r1;\n        let r5: %s = &x / &y;" % (R, A, A, B, R)
            kc.add(Harness("ops_" + d.name.lower(), """
        let a: f64 = kani::any();
        let b: f64 = kani::any();
        let i: usize = kani::any();
        let j: usize = kani::any();
        kani::assume(i < %(TA)s_N && j < %(TB)s_N);
        let x = <%(A)s as Quantity>::new(a, %(TA)s_IDENTS[i]);
        let y = <%(B)s as Quantity>::new(b, %(TB)s_IDENTS[j]);
        %(body)s
        kani::cover!(true, "the declared operators and their inverses exist with the declared result types and do not panic");
        """ % {"A": A, "B": B, "TA": a_.upper(), "TB": b_.upper(), "body": body}, unwind=na + 2, key="f64 corpus %s operator set" % d.name))
    kc.add(Harness("canary_must_fail", "        let i: usize = kani::any();\n        kani::assume(i < SYN0_N);\n        assert!(SYN0_IDENTS[i].is_ref_unit());\n",
                   expect="fail", unwind=12, key="canary", symbolic=False))
    kc.run(report, timeout=600 if tier == "quick" else 3000, jobs=6)
    return kc


def write_crate(src, backend):
    sc = common.scratch()
    d = sc.dir("corpus-" + backend)
    feats = '"std"' + (', "fpdec"' if backend == "dec" else "")
    with open(os.path.join(d, "Cargo.toml"), "w") as f:
        f.write('[package]\nname = "corpus"\nversion = "0.0.0"\nedition = "2021"\n\n[dependencies]\n'
                'quantities = { path = "%s", default-features = false, features = [%s] }\nqty-macros = { path = "%s/qty-macros" }\n\n[workspace]\n\n'
                '[lints.rust]\nunexpected_cfgs = { level = "allow" }\n' % (common.REPO, feats, common.REPO))
    import shutil
    if os.path.exists(os.path.join(common.REPO, "Cargo.lock")):
        shutil.copy(os.path.join(common.REPO, "Cargo.lock"), os.path.join(d, "Cargo.lock"))
    os.makedirs(os.path.join(d, "src"), exist_ok=True)
    with open(os.path.join(d, "src", "lib.rs"), "w") as f:
        f.write("#![allow(unused, non_snake_case, non_camel_case_types)]\n" + src)
    return d


def run(report, tier):
    E.setup_report(report, "C11")
    k = 6 if tier == "quick" else 24
    defs, twins, derived = gen_defs.corpus(common.seed(), k)
    src = gen_defs.module_source(defs, twins, derived)
    allspecs = specs(defs, twins, derived)
    report.extra["programs"] = len(allspecs)
    report.extra["definitions"] = src[:6000]
    report.bounds.update({"programs": "%d seeded definitions (VERIF_SEED=%d): %d base, %d attribute-permuted twins, %d derived; the program dimension is SAMPLED, not decided" % (
        len(allspecs), common.seed(), len(defs), len(twins), len(derived)),
        "per_definition": "every unit by symbolic index, every f64 bit pattern (Kani); every ordered unit pair, all amounts in the boxes of C01/C03/C04/C05 (E2)"})
    report.trusted += ["independent reading of the declarations in engine/synth/gen_defs.py (names, UpperCamel variants, UPPER_SNAKE constants, literal values, stable sort)"]
    import concurrent.futures as cf
    backends = ["f64", "dec"]
    frontend.dump_repo_parallel(backends)
    for be in backends:
        cdir = write_crate(src, be)
        frontend.dump_crate("corpus", cdir, be, feats=None, no_default=False)
        frontend._cache[("crate", "corpus", be)].crate_path = "crate::corpus"
    pool = mpool.Pool(jobs=max(2, common.ncpu() - 8))
    try:
        with cf.ThreadPoolExecutor(max_workers=2) as ex:
            futs = [ex.submit(kani_part, report, tier, be, src, allspecs, derived, defs) for be in backends]
            keys = {be: ("crate", "corpus", be) for be in backends}
            desc = {be: pool.describe(keys[be]) for be in backends}
            amt = {"f64": "f64", "dec": "Decimal"}
            cands = []
            for mod, mk in ((C01, lambda key, q, u: (key, q, u)), (C03, lambda key, q, u: (key, q, u))):
                tasks = [mk(keys[be], q, u) for be in backends for q in desc[be]["qty"] if desc[be]["has_ref"][q] and q != amt[be] for u in desc[be]["units"][q]]
                cands += pool.run(report, mod.task, tasks)
            t4 = [(keys[be], inst, ua, True) for be in backends for inst in desc[be]["operators"] for ua in desc[be]["units"][inst[0]]]
            cands += pool.run(report, C04.task, t4)
            t5 = [(keys[be], inst, ua) for be in backends for inst in desc[be]["operators"] for ua in desc[be]["units"][inst[0]]]
            c5 = pool.run(report, C05.task, t5)
            for be in backends:
                found = set((i[0], i[1], i[2], i[3]) for i in desc[be]["operators"])
                for d in derived:
                    a_, op, b_ = d.derived
                    want = {(a_, "mul", b_, d.name), (b_, "mul", a_, d.name), (d.name, "div", a_, b_), (d.name, "div", b_, a_)} if op == "*" else \
                        {(a_, "div", b_, d.name), (d.name, "mul", b_, a_), (b_, "mul", d.name, a_), (a_, "div", d.name, b_)}
                    ok = want <= found
                    report.oblig("%s corpus %s: the operator set of the derivation is generated" % (be, d.name), ok, False)
                    if not ok:
                        report.inconcl("%s corpus %s: operators missing in the MIR: %s" % (be, d.name, sorted(want - found)))
            # native replay of E2 candidates against a replay binary that contains the corpus
            for c in cands + c5:
                be = c["backend"]
                c["paths"] = {q: "crate::corpus::%s::%s" % (q.lower(), q) for q in desc[be]["qty"] if q not in ("f64", "Decimal")}
                if c["prop"] == "C05":
                    c["prefixes"] = desc[be]["prefix"].get(c["types"][2], {})
                    c["ref_unit"] = desc[be]["ref_unit"].get(c["types"][2])
            by = {}
            for c in cands + c5:
                by.setdefault(c["prop"], []).append(c)
            orig = rgen.ReplayCrate

            def factory(be, name=None, extra_deps="", extra_src=""):
                return orig(be, name=name or ("replay-corpus-" + be), extra_src=src)
            rgen.ReplayCrate = factory
            try:
                for prop, cs in by.items():
                    mod = {"C01": C01, "C03": C03, "C04": C04, "C05": C05}[prop]
                    pr = {"C01": E.probe_amounts_1}.get(prop, E.probe_amounts_2)
                    E.native_confirm(report, "C11", cs, desc, mod.oracle, probes=pr, max_groups=12)
            finally:
                rgen.ReplayCrate = orig
            for f in futs:
                f.result()
        confirm_failures(report)
    finally:
        pool.close()
