"""C04 Derived products and quotients preserve the physical value -- Engine E2.

For every derived operator instance found in the MIR (checked against the
declared derivations of the independent spec) and every operand unit pair,
symbolic amounts a, b, every path (natural unit, or each unit `_fit` can pick):
  value   |r - (a o b)(sa o sb)/sw| within tolerance                 (T_re64 / T_red, QF_NRA)
  forms   &A o B, A o &B, &A o &B return the same unit and term      (T_uf)
  inverse (a o b) then the inverse operator returns a within the summed tolerance (thorough)
"""
from fractions import Fraction as F

from engine import common
from engine.mirsmt import frontend, pool as mpool
from engine.replay import gen as rgen
from spec import tolerances as tol
from spec import catalogue
from props import e2common as E
from props import derived as D


def dec_tol(T, ab_abs, s, sw):
    # K*eps*(1 + (1 + s + |a o b|)/sw)
    return T.Q(tol.KDEC * tol.EPS) * (1 + (1 + T.Q(s) + ab_abs) / T.Q(sw))


def task(t):
    import z3
    from engine.mirsmt import driver, theories as T
    key, inst, ua, forms = t
    inst = tuple(inst)
    w = mpool.world(key)
    be = w.backend
    R = mpool.TaskResult()
    sv = driver.Solver(timeout_ms=E.query_timeout_ms())
    A_, op, B_, Rt = inst
    for ub in w.units(B_):
        pair = "%s %s[%s] %s %s[%s]" % (be, A_, ua, op, B_, ub)
        sa, sb = w.scale_fr(A_, ua), w.scale_fr(B_, ub)
        th = T.TRe64() if be == "f64" else T.TRed()
        run = driver.Run(w, th)
        a, b = th.var("a"), th.var("b")
        box = z3.And(E.box1(th, a, tol.BOX64_2), E.box_nz(th, b, tol.BOX64_2) if op == "div" else E.box1(th, b, tol.BOX64_2))
        run.assume(box)
        s0 = run.state()
        outs = D.run_op(run, s0, inst, ua, ub, a, b)
        R.absorb_exec(run.ex)
        ab = a.term * b.term if op == "mul" else a.term / b.term
        ss = sa * sb if op == "mul" else sa / sb
        R.extra["paths"] = R.extra.get("paths", 0) + len(outs)
        for o in outs:
            if o.panic:
                R.oblig(pair + " no-panic", False)
                R.candidates.append(E.cand("C04", "panic", be, w, op, list(inst[:1]) + [B_, Rt], [ua, ub], None, pair, note=o.panic, form="vv"))
                continue
            wu, r = D.result_parts(run, inst, o)
            pk = pair + " ->" + wu
            sw = w.scale_fr(Rt, wu) if Rt != w.AMT else F(1)
            Tt = ab * T.Q(ss / sw)
            hyp = [box] + th.cons + o.pc
            if be == "f64":
                goal = T.zabs(r.term - Tt) <= T.Q(tol.K64 * tol.U) * T.zabs(Tt)
            else:
                hyp = hyp + [f for _, f in th.side]
                goal = T.zabs(r.term - Tt) <= dec_tol(T, T.zabs(ab), ss, sw)
            res, model = sv.check(hyp + [z3.Not(goal)], want_model=True, keep_sample=True)
            R.oblig(pk + " value", res == "unsat", True, {"obligation": pk + " value", "theory": th.name, "verdict": res,
                                                         "goal": "|r - (a%sb)*%s| <= tol" % ("*" if op == "mul" else "/", ss / sw)})
            if res == "sat":
                R.candidates.append(E.cand("C04", "value", be, w, op, [A_, B_, Rt], [ua, ub], E.model_amounts(model, [a, b], be), pair, form="vv"))
            elif res != "unsat":
                R.inconclusive.append("%s: solver answered %s" % (pk, res))
            if be == "f64":
                for desc_, f in th.side:
                    res, _ = sv.check([box] + th.cons + o.pc + [z3.Not(f)])
                    R.oblig(pk + " range:" + desc_[:24], res == "unsat", True)
                    if res != "unsat":
                        R.inconclusive.append("%s: T_re64 range side obligation not discharged (%s): %s" % (pk, res, desc_))
        if ua == w.units(A_)[0] and ub == w.units(B_)[-1]:
            good = [o for o in outs if not o.panic]
            res, _ = sv.check([box, a.term != 0, b.term != 0] + th.cons + [z3.Or([z3.And([E.z(c) for c in o.pc]) if o.pc else z3.BoolVal(True) for o in good])])
            R.vacuity.append("%s reachable with a,b != 0: %s" % (pair, res))
            if res != "sat":
                R.inconclusive.append("%s: vacuous" % pair)
            o = good[0]
            wu, r = D.result_parts(run, inst, o)
            sw = w.scale_fr(Rt, wu) if Rt != w.AMT else F(1)
            bad = ab * T.Q(2 * ss / sw) + 1
            res, _ = sv.check([box] + th.cons + o.pc + [f for _, f in th.side] + [z3.Not(T.zabs(r.term - bad) <= T.Q(tol.K64 * tol.U) * (T.zabs(bad) + 1))])
            R.vacuity.append("%s canary (wrong spec 2T+1): %s" % (pair, res))
            E.canary_verdict(R, sv, pair, res, [box] + th.cons + o.pc, [f for _, f in th.side] if be == "dec" else [])
        # ---------------- reference forms return the same thing (T_uf)
        if forms:
            th = T.TUf(be, total=True)
            run = driver.Run(w, th, prune=False)
            a, b = th.var("a"), th.var("b")
            base = D.run_op(run, run.state(), inst, ua, ub, a, b, "vv")
            base_parts = [(o, D.result_parts(run, inst, o)) for o in base if not o.panic]
            for form in ("rv", "vr", "rr"):
                outs = D.run_op(run, run.state(), inst, ua, ub, a, b, form)
                parts = [(o, D.result_parts(run, inst, o)) for o in outs if not o.panic]
                ok = len(parts) == len(base_parts) and not any(o.panic for o in outs)
                if ok:
                    def by_unit(ps):
                        d = {}
                        for o, (u, r) in ps:
                            d.setdefault(u, []).append((z3.And([E.z(c) for c in o.pc]) if o.pc else z3.BoolVal(True), r))
                        return d
                    g1, g2 = by_unit(base_parts), by_unit(parts)
                    ok = set(g1) == set(g2)
                    if ok:
                        for u in g1:
                            c1 = z3.Or([c for c, _ in g1[u]])
                            c2 = z3.Or([c for c, _ in g2[u]])
                            diff = [z3.And(x, y, rx.term != ry.term) for x, rx in g1[u] for y, ry in g2[u]]
                            res, _ = sv.check(th.cons + [z3.Or([c1 != c2] + diff)])
                            if res != "unsat":
                                ok = False
                                break
                R.oblig("%s form %s" % (pair, form), ok, True, {"obligation": "%s form %s" % (pair, form), "theory": "T_uf", "goal": "same unit and same amount term as the owned form on every path"})
                if not ok:
                    R.candidates.append(E.cand("C04", "form", be, w, op, [A_, B_, Rt], [ua, ub], None, pair + " form " + form, form=form))
            R.absorb_exec(run.ex)
    R.absorb_solver(sv)
    return R


def oracle(c, out, scales):
    import math
    be, op = c["backend"], c["op"]
    A_, B_, Rt = c["types"]
    ua, ub = c["units"]
    a, b = E.amount_value(be, c["amounts"][0]), E.amount_value(be, c["amounts"][1])
    if be == "f64" and not (math.isfinite(a) and math.isfinite(b)):
        return None, "non-finite input"
    if op == "div" and b == 0:
        return None, "zero divisor"
    unit, r = rgen.parse_q(be, out)
    if unit == "PANIC":
        return (be == "f64"), "panicked: %s" % r
    if be == "f64" and not math.isfinite(r):
        return None, "non-finite result"
    sa, sb = F(scales[A_][ua]), F(scales[B_][ub])
    if Rt in ("f64", "Decimal"):
        sw = F(1)
    elif unit not in scales[Rt]:
        return True, "result unit %s is not a unit of %s" % (unit, Rt)
    else:
        sw = F(scales[Rt][unit])
    ab = F(a) * F(b) if op == "mul" else F(a) / F(b)
    ss = sa * sb if op == "mul" else sa / sb
    Tt = ab * ss / sw
    if be == "f64":
        ok = abs(F(r) - Tt) <= tol.K64 * tol.U * abs(Tt)
    else:
        ok = abs(F(r) - Tt) <= tol.KDEC * tol.EPS * (1 + (1 + ss + abs(ab)) / sw)
    text = "(%s %s) %s (%s %s) = %s %s [form %s], exact %.17g" % (a, ua, "*" if op == "mul" else "/", b, ub, r, unit, c.get("form", "vv"), float(Tt))
    if c.get("kind") == "form" and c.get("form", "vv") != "vv":
        return (not ok), text
    return (not ok), text


def run(report, tier):
    E.setup_report(report, "C04")
    backends = ["f64", "dec"]
    keys = E.dump_worlds(backends)
    pool = mpool.Pool()
    try:
        desc = E.describe_worlds(pool, keys)
        tasks = []
        spec_ops = set((a if a != "AmountT" else None, op, b if b != "AmountT" else None, r if r != "AmountT" else None) for a, op, b, r in catalogue.operator_instances())
        astro_ops = set(catalogue.operator_instances(catalogue.ASTRO))
        for label, key in keys.items():
            d = desc[label]
            amt = "Decimal" if label == "dec" else "f64"
            found = set(tuple(None if x == amt else x for x in i) for i in d["operators"])
            want = astro_ops if label == "astro" else spec_ops
            missing = want - found
            report.oblig("%s operator instances declared by the derivations are all generated" % label, not missing, False)
            if missing:
                report.inconcl("%s: operator instances expected from the declared derivations are missing in the MIR: %s" % (label, sorted(map(str, missing))[:6]))
            report.notes.append("%s: %d operator instances in MIR (%d expected from spec)" % (label, len(found), len(want)))
            for inst in d["operators"]:
                us = d["units"][inst[0]]
                for k, ua in enumerate(us):
                    forms = True if tier == "thorough" else (k in (0, len(us) - 1))
                    tasks.append((key, inst, ua, forms))
        E.shuffle(tasks)
        report.bounds.update({
            "f64_amount_box": "a, b = 0 or 2^-400 <= |.| <= 2^400 (divisor non-zero); every intermediate proved zero-or-normal",
            "decimal_amount_box": "|a|, |b| <= 1e17 (divisor non-zero), paths without fpdec overflow",
            "units": "every operand unit pair of each of the operator instances; reference forms on %s" % ("every pair" if tier == "thorough" else "the first and last left-operand unit rows"),
        })
        cands = pool.run(report, task, tasks)
        pool.cross_check(report)
        E.native_confirm(report, "C04", cands, desc, oracle, probes=E.probe_amounts_2)
        E.translator_validation(report, pool, desc, ops=("mul", "div"), full=(tier == "thorough"))
    finally:
        pool.close()
