"""C14 Table-driven conversions apply the declared affine map -- E1 + E2.

E1 (Kani): every ConversionTable<Temperature, N> with N <= 3 (quick) / 4 (thorough) rows whose
2N row units are symbolic, symbolic source and target unit, factor 1 and distinct tag offsets:
same unit => Some(input); else the FIRST row with that (from, to) pair; else None.
E2: with symbolic amount, factor, offset the result amount is exactly fadd(fmul(a,f),o) (T_uf);
the predefined temperature table (evaluated from its const MIR) covers all 9 ordered pairs and
each is within tolerance of the physical formula; round trips return the original (T_re64 / T_red).
"""
from fractions import Fraction as F

from engine import common
from engine.mirsmt import frontend, pool as mpool
from engine.kani.runner import KaniCrate, Harness, confirm_failures
from engine.replay import gen as rgen
from spec import tolerances as tol
from spec import catalogue
from props import e2common as E
from props import kanigen as G

KTEMP64 = tol.K64
UNITS = {"Kelvin": "Kelvin", "DegreeCelsius": "Degree_Celsius", "DegreeFahrenheit": "Degree_Fahrenheit"}


def formula(fu, tu):
    return catalogue.TEMP_FORMULAS[(UNITS[fu], UNITS[tu])]


def table_convert(run, st, table, q, a, fu, tu):
    w = run.w
    n = len(table.vals[0].vals)
    qv = run.qty(st, q, a, fu)
    return run.call(st, "<converter::ConversionTable<%s, %d> as Converter<%s>>::convert" % (q, n, q), [table, run.ref(st, qv), w.unit(q, tu)])


def task(t):
    import z3
    from engine.mirsmt import driver, theories as T
    from engine.mirsmt.exec import Struct, Arr, Tup
    key, kind = t
    w = mpool.world(key)
    be = w.backend
    R = mpool.TaskResult()
    sv = driver.Solver(timeout_ms=E.query_timeout_ms())
    q = "Temperature"
    us = w.units(q)
    if kind == "generic":
        # symbolic factor/offset, every (from,to) pair, matching row at position 0 or 1
        for fu in us:
            for tu in us:
                for pos in (0, 1):
                    th = T.TUf(be)
                    run = driver.Run(w, th, prune=False)
                    a, f, o, f2, o2 = [th.var(x) for x in ("a", "f", "o", "f2", "o2")]
                    other = [u for u in us if u != fu][0]
                    rows = [Tup([w.unit(q, other), w.unit(q, tu), f2, o2]), Tup([w.unit(q, fu), w.unit(q, tu), f, o])]
                    if pos == 0:
                        rows = [rows[1], Tup([w.unit(q, fu), w.unit(q, tu), f2, o2])]     # duplicate entry: the first one wins
                    table = Struct("ConversionTable<%s, 2>" % q, ["mappings"], [Arr(rows)])
                    st = run.state()
                    outs = table_convert(run, st, table, q, a, fu, tu)
                    pair = "%s table %s->%s row@%d" % (be, fu, tu, pos)
                    ok = len(outs) == 1 and not outs[0].panic and outs[0].value.variant == "Some"
                    if ok:
                        res = outs[0].value.payload[0]
                        ok = run.unit_of(outs[0].state, q, res) == tu
                        r = run.amount_of(outs[0].state, q, res)
                        want = a if fu == tu else th.bin("Add", th.bin("Mul", a, f), o)
                        rs, _ = sv.check(th.cons + outs[0].pc + [r.term != want.term])
                        ok = ok and rs == "unsat"
                    R.oblig(pair + " affine", ok, True, {"obligation": pair, "theory": "T_uf", "goal": "same unit: input unchanged; else amount is fadd(fmul(a,f),o) of the first matching row"})
                    R.absorb_exec(run.ex)
                # missing entry -> None
                if fu != tu:
                    th = T.TUf(be)
                    run = driver.Run(w, th, prune=False)
                    a, f, o = th.var("a"), th.var("f"), th.var("o")
                    rows = [Tup([w.unit(q, tu), w.unit(q, fu), f, o]), Tup([w.unit(q, fu), w.unit(q, fu), f, o])]
                    table = Struct("ConversionTable<%s, 2>" % q, ["mappings"], [Arr(rows)])
                    outs = table_convert(run, run.state(), table, q, a, fu, tu)
                    ok = len(outs) == 1 and not outs[0].panic and outs[0].value.variant == "None"
                    R.oblig("%s table %s->%s missing -> None" % (be, fu, tu), ok, False)
        R.absorb_solver(sv)
        return R
    # ---------------- the predefined temperature table
    for fu in us:
        for tu in us:
            pair = "%s TEMPERATURE_CONVERTER %s->%s" % (be, fu, tu)
            th = T.TRe64() if be == "f64" else T.TRed()
            run = driver.Run(w, th)
            a = th.var("a")
            box = E.box1(th, a, (F(1, 2 ** 400), F(2 ** 400)))
            run.assume(box)
            st = run.state()
            table = run.ex.named_const(st, "TEMPERATURE_CONVERTER", {})
            outs = table_convert(run, st, table, q, a, fu, tu)
            R.absorb_exec(run.ex)
            ok = len(outs) == 1 and not outs[0].panic and outs[0].value.variant == "Some"
            R.oblig(pair + " entry present", ok, False)
            if not ok:
                R.candidates.append(E.cand("C14", "missing", be, w, "temp_convert", [q], [fu, tu], None, pair))
                continue
            o = outs[0]
            res = o.value.payload[0]
            unit = run.unit_of(o.state, q, res)
            R.oblig(pair + " unit", unit == tu, False)
            r = run.amount_of(o.state, q, res)
            if fu == tu:
                rs, _ = sv.check([box] + th.cons + o.pc + [r.term != a.term])
                R.oblig(pair + " identity", rs == "unsat", True)
                continue
            f, off = formula(fu, tu)
            Tt = a.term * T.Q(f) + T.Q(off)
            hyp = [box] + th.cons + o.pc
            if be == "f64":
                goal = T.zabs(r.term - Tt) <= T.Q(KTEMP64 * tol.U) * (T.zabs(a.term * T.Q(f)) + T.Q(abs(off)))
            else:
                hyp = hyp + [fm for _, fm in th.side]
                goal = T.zabs(r.term - Tt) <= T.Q(tol.KDEC * tol.EPS) * (1 + T.zabs(a.term))
            rs, model = sv.check(hyp + [z3.Not(goal)], want_model=True, keep_sample=True)
            R.oblig(pair + " formula", rs == "unsat", True, {"obligation": pair + " formula", "theory": th.name, "goal": "|r - (a*%s + %s)| <= tol" % (f, off), "verdict": rs})
            if rs == "sat":
                R.candidates.append(E.cand("C14", "formula", be, w, "temp_convert", [q], [fu, tu], E.model_amounts(model, [a], be), pair))
            elif rs != "unsat":
                R.inconclusive.append("%s: solver answered %s" % (pair, rs))
            if be == "f64":
                for desc_, fm in th.side:
                    rs, _ = sv.check([box] + th.cons + o.pc + [z3.Not(fm)])
                    R.oblig(pair + " range:" + desc_[:24], rs == "unsat", True)
                    if rs != "unsat":
                        R.inconclusive.append("%s: T_re64 range side obligation not discharged: %s" % (pair, desc_))
            # round trip  fu -> tu -> fu
            st2 = o.state
            outs2 = run.call(st2, "<converter::ConversionTable<%s, 6> as Converter<%s>>::convert" % (q, q), [table, run.ref(st2, res), w.unit(q, fu)])
            ok2 = len(outs2) == 1 and not outs2[0].panic and outs2[0].value.variant == "Some"
            if ok2:
                o2 = outs2[0]
                r2 = run.amount_of(o2.state, q, o2.value.payload[0])
                f2, off2 = formula(tu, fu)
                if be == "f64":
                    bound = T.Q(2 * KTEMP64 * tol.U) * (T.Q(abs(f2)) * (T.zabs(a.term * T.Q(f)) + T.Q(abs(off))) + T.zabs(r.term * T.Q(f2)) + T.Q(abs(off2)))
                    hyp2 = [box] + th.cons + o2.pc
                else:
                    # the 18-digit table constants (5/9 -> 0.555555555555555556) carry an error of up to 5e-19 that is
                    # multiplied by the intermediate value r (which includes the offset, e.g. 32), hence |r| in the bound
                    bound = T.Q(2 * tol.KDEC * tol.EPS) * (1 + T.zabs(a.term) + T.zabs(r.term)) * T.Q(1 + abs(f2))
                    hyp2 = [box] + th.cons + o2.pc + [fm for _, fm in th.side]
                rs, model = sv.check(hyp2 + [z3.Not(T.zabs(r2.term - a.term) <= bound)], want_model=True)
                ok2 = rs == "unsat"
                if rs == "sat":
                    R.candidates.append(E.cand("C14", "roundtrip", be, w, "temp_convert", [q], [fu, tu], E.model_amounts(model, [a], be), pair + " roundtrip"))
            R.oblig(pair + " round trip", ok2, True, {"obligation": pair + " round trip", "theory": th.name, "goal": "conv(conv(x, u->v), v->u) returns x within the summed tolerance"})
    R.absorb_solver(sv)
    return R


def oracle(c, out, scales):
    import math
    be = c["backend"]
    fu, tu = c["units"]
    a = E.amount_value(be, c["amounts"][0])
    if be == "f64" and not math.isfinite(a):
        return None, "non-finite"
    unit, r = rgen.parse_q(be, out)
    if unit == "NONE":
        return True, "no table entry for %s -> %s" % (fu, tu)
    if unit == "PANIC":
        return (be == "f64"), "panicked"
    if unit != tu:
        return True, "result unit %s" % unit
    if fu == tu:
        return (F(r) != F(a)), "same unit: %s -> %s" % (a, r)
    f, off = formula(fu, tu)
    Tt = F(a) * f + off
    if be == "f64":
        ok = abs(F(r) - Tt) <= KTEMP64 * tol.U * (abs(F(a) * f) + abs(off))
    else:
        ok = abs(F(r) - Tt) <= tol.KDEC * tol.EPS * (1 + abs(F(a)))
    return (not ok), "%s %s -> %s %s, formula gives %.17g" % (a, fu, r, tu, float(Tt))


def kani_part(report, tier):
    temp = catalogue.by_name("Temperature")
    pre = G.PRELUDE + G.tables(temp, "f64") + "use quantities::{ConversionTable, Converter};\nuse quantities::temperature::{Temperature, TemperatureUnit};\n"
    kc = KaniCrate("c14", "f64", extra_src=pre)
    for n in ((1, 2, 3) if tier == "quick" else (1, 2, 3, 4)):
        rows = "\n".join("        let f%d: usize = kani::any();\n        let t%d: usize = kani::any();\n        kani::assume(f%d < 3 && t%d < 3);" % (k, k, k, k) for k in range(n))
        arr = ", ".join("(TEMPERATURE_IDENTS[f%d], TEMPERATURE_IDENTS[t%d], 1.0, %d.0)" % (k, k, 100 * (k + 1)) for k in range(n))
        exp = "\n".join("        if first == %d && f%d == i && t%d == j { first = %d; }" % (n, k, k, k) for k in range(n))
        kc.add(Harness("table_rows_%d" % n, """
%(rows)s
        let i: usize = kani::any();
        let j: usize = kani::any();
        kani::assume(i < 3 && j < 3);
        let a: f64 = 7.0;
        let table = ConversionTable::<Temperature, %(n)d> { mappings: [%(arr)s] };
        let q = <Temperature as Quantity>::new(a, TEMPERATURE_IDENTS[i]);
        let r = table.convert(&q, TEMPERATURE_IDENTS[j]);
        if i == j {
            let v = r.unwrap();
            assert!(v.unit() == TEMPERATURE_IDENTS[i] && v.amount().to_bits() == a.to_bits(), "a value that already has the target unit is returned unchanged");
        } else {
            let mut first: usize = %(n)d;
%(exp)s
            if first == %(n)d {
                assert!(r.is_none(), "no entry for this (from, to) pair: nothing");
            } else {
                let v = r.unwrap();
                assert!(v.unit() == TEMPERATURE_IDENTS[j], "result carries the target unit");
                assert!(v.amount() == a * 1.0 + 100.0 * ((first + 1) as f64), "the FIRST entry for (from, to) is applied: amount * factor + offset");
            }
            kani::cover!(first == %(n)d - 1, "last row is the first match");
            kani::cover!(first == %(n)d, "no row matches");
        }
        """ % {"rows": rows, "n": n, "arr": arr, "exp": exp}, unwind=n + 3, key="f64 ConversionTable N=%d row selection" % n,
                       sample={"harness": "table_rows_%d" % n, "symbolic": "%d row units, source and target unit" % (2 * n),
                               "asserts": "same unit: unchanged; else first matching row (identified by tag offsets); else None"}))
    kc.add(Harness("canary_must_fail", """
        let i: usize = kani::any();
        kani::assume(i < 3);
        let table = ConversionTable::<Temperature, 1> { mappings: [(TEMPERATURE_IDENTS[0], TEMPERATURE_IDENTS[1], 1.0, 5.0)] };
        let q = <Temperature as Quantity>::new(1.0, TEMPERATURE_IDENTS[i]);
        assert!(table.convert(&q, TEMPERATURE_IDENTS[1]).is_none());
    """, expect="fail", unwind=4, key="canary", symbolic=False))
    report.bounds["kani_table"] = "every table with <= %d rows over the 3-unit Temperature type (all row units symbolic), every source/target unit; factors 1, tag offsets, amount 7.0" % (3 if tier == "quick" else 4)
    kc.run(report, timeout=(600 if tier == "quick" else 3000))
    confirm_failures(report)


def run(report, tier):
    E.setup_report(report, "C14")
    report.trusted += ["Kani 0.68 / CBMC 6.11 (row selection)", "spec/catalogue.py TEMP_FORMULAS (K = C + 273.15, F = C*9/5 + 32)"]
    backends = ["f64", "dec"]
    import concurrent.futures as cf
    frontend.dump_repo_parallel(backends)
    pool = mpool.Pool(jobs=4)
    try:
        with cf.ThreadPoolExecutor(max_workers=1) as ex:
            fut = ex.submit(kani_part, report, tier)
            desc = {be: pool.describe(be) for be in backends}
            tasks = [(be, k) for be in backends for k in ("generic", "temperature")]
            report.bounds.update({"temperature_box": "f64: a = 0 or 2^-400 <= |a| <= 2^400; decimal |a| <= 1e17", "pairs": "all 9 ordered unit pairs, round trips for the 6 proper pairs"})
            cands = pool.run(report, task, tasks)
            pool.cross_check(report)
            E.native_confirm(report, "C14", cands, desc, oracle, probes=E.probe_amounts_1)
            fut.result()
    finally:
        pool.close()
