"""C16 SI prefix table is a consistent bijection -- Engine E1 (Kani).

All quantifiers of the property are finite (25 prefixes, 256 exponents) or
bounded (strings of <= n bytes); the solver decides each of them over the
compiled `SIPrefix` code, against the SI-brochure table in spec/catalogue.py.
"""
import os

from engine.kani.runner import KaniCrate, Harness, rust_str, confirm_failures
from spec.catalogue import SI_PREFIXES


def tables():
    n = len(SI_PREFIXES)
    s = "const N: usize = %d;\n" % n
    s += "const NAMES: [&str; N] = [%s];\n" % ", ".join(rust_str(p[1]) for p in SI_PREFIXES)
    s += "const ABBRS: [&str; N] = [%s];\n" % ", ".join(rust_str(p[2]) for p in SI_PREFIXES)
    s += "const EXPS: [i8; N] = [%s];\n" % ", ".join(str(p[3]) for p in SI_PREFIXES)
    s += "const IDENTS: [SIPrefix; N] = [%s];\n" % ", ".join("SIPrefix::" + p[0] for p in SI_PREFIXES)
    return s


def run(report, tier):
    n = len(SI_PREFIXES)
    maxlen = max(len(p[1].encode()) for p in SI_PREFIXES) + 2
    nbytes = 3 if tier == "quick" else int(os.environ.get("VERIF_C16_BYTES", "8"))
    kc = KaniCrate("c16", "f64", extra_src=tables())
    report.bounds.update({"prefixes": n, "exponent_domain": "all 256 i8 values", "abbr_strings": "every valid UTF-8 string of <= %d bytes" % nbytes,
                          "unwind": n + 2})
    report.trusted += ["Kani 0.68 MIR->GOTO translation", "CBMC 6.11 + cadical", "spec/catalogue.py SI_PREFIXES (SI brochure table)"]
    report.functions.update(["SIPrefix::iter", "SIPrefix::name", "SIPrefix::abbr", "SIPrefix::exp", "SIPrefix::from_abbr", "SIPrefix::from_exp",
                             "EnumIter derive (VARIANTS)"])

    kc.add(Harness("iter_matches_table", """
        let i: usize = kani::any();
        kani::assume(i < N);
        let mut count = 0usize;
        let mut prev: i16 = -1000;
        for (k, p) in SIPrefix::iter().enumerate() {
            assert!((p.exp() as i16) > prev, "iteration in increasing exponent order");
            prev = p.exp() as i16;
            if k == i {
                assert!(k < N);
                assert!(p.exp() == EXPS[i]);
                assert!(p.name() == NAMES[i]);
                assert!(p.abbr() == ABBRS[i]);
                assert!(*p == IDENTS[i]);
                assert!((*p as i8) == EXPS[i]);
            }
            count += 1;
        }
        assert!(count == N);
        kani::cover!(i == N - 1, "last index reachable");
    """, unwind=n + 2, key="iter/table[i]", sample={"harness": "iter_matches_table", "symbolic": "index i < 25", "asserts": "name/abbr/exp/ident of i-th iterated prefix == SI brochure row i; strictly increasing exponents; count == 25"}))

    kc.add(Harness("from_exp_all_i8", """
        let e: i8 = kani::any();
        let r = SIPrefix::from_exp(e);
        let mut idx: usize = N;
        let mut k = 0;
        while k < N { if EXPS[k] == e { idx = k; } k += 1; }
        match r {
            Some(p) => { assert!(idx < N, "exponent without prefix must give None"); assert!(p == IDENTS[idx]); assert!(p.exp() == e); }
            None => assert!(idx == N, "every table exponent must be found"),
        }
        kani::cover!(r.is_some(), "some");
        kani::cover!(r.is_none(), "none");
    """, unwind=n + 2, key="from_exp/all i8", sample={"harness": "from_exp_all_i8", "symbolic": "e: any i8", "asserts": "Some(p) iff e in table, p is that row"}))

    kc.add(Harness("from_abbr_bounded_strings", """
        let bytes: [u8; %d] = kani::any();
        let len: usize = kani::any();
        kani::assume(len <= %d);
        let k: usize = kani::any();
        kani::assume(k < N);
        if let Ok(s) = core::str::from_utf8(&bytes[..len]) {
            let r = SIPrefix::from_abbr(s);
            match r {
                // the prefix returned has exactly this abbreviation (with iter_matches_table: it is that table row)
                Some(p) => { assert!(p.abbr() == s, "returned prefix must have the abbreviation asked for"); }
                // nothing returned: no table row (symbolic k = every row) has this abbreviation
                None => assert!(ABBRS[k] != s, "every table abbreviation must be found"),
            }
            kani::cover!(r.is_some() && len == 2, "two-byte abbreviation found");
            kani::cover!(r.is_none(), "none");
        }
    """ % (nbytes, nbytes), unwind=max(8, nbytes + 4), key="from_abbr/strings<=%d" % nbytes, timeout=(600 if nbytes <= 3 else 3000),
                   sample={"harness": "from_abbr_bounded_strings", "symbolic": "any UTF-8 string of <= %d bytes, any table row k" % nbytes,
                           "asserts": "Some(p) => p.abbr()==s ; None => ABBRS[k] != s for every k"}))

    kc.add(Harness("bijection", """
        let i: usize = kani::any();
        let j: usize = kani::any();
        kani::assume(i < N && j < N && i != j);
        let p = IDENTS[i];
        let q = IDENTS[j];
        assert!(p != q);
        assert!(p.exp() != q.exp());
        assert!(p.abbr() != q.abbr());
        assert!(p.name() != q.name());
        assert!(SIPrefix::from_exp(p.exp()) == Some(p));
        assert!(SIPrefix::from_abbr(p.abbr()) == Some(p));
        kani::cover!(i == 24 && j == 0, "extremes");
    """, unwind=maxlen + 2, key="bijection/i!=j", sample={"harness": "bijection", "symbolic": "indices i != j", "asserts": "exp, abbr, name pairwise distinct; lookups invert"}))

    kc.add(Harness("canary_must_fail", """
        let e: i8 = kani::any();
        assert!(SIPrefix::from_exp(e).is_none());
    """, expect="fail", key="canary", symbolic=False))

    kc.run(report, timeout=600 if tier == "quick" else 3000)
    confirm_failures(report)
