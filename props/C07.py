"""C07 Catalogue units carry their defined scales, prefixes and symbols -- E1 (Kani).

Per predefined quantity (main crate in both amount back-ends, astronomical crate
in f64) one harness with a symbolic unit index compares name(), symbol(),
si_prefix() and scale() of the real generated code with the independent
definition table spec/catalogue.py.  A failing harness is replayed natively by
a registry dump of the real build, which also identifies the unit(s).
"""
from fractions import Fraction as F

from engine import common
from engine.kani.runner import KaniCrate, Harness, rust_str
from engine.replay import regdump
from engine.mirsmt.theories import round_dec18
from spec import catalogue
from spec import tolerances as tol
from props import kanigen as G


def harness_f64(q):
    T = q.name.upper()
    p = G.qpath(q)
    maxlen = max(len(u.name.encode()) for u in q.units) + 2
    body = """
        let i: usize = kani::any();
        kani::assume(i < %(T)s_N);
        let u = %(T)s_IDENTS[i];
        assert!(u.name() == %(T)s_NAMES[i], "name is the identifier with underscores shown as spaces");
        assert!(u.symbol() == %(T)s_SYMS[i], "symbol matches the published symbol");
        assert!(u.si_prefix() == %(T)s_PREFIX[i], "SI prefix matches the definition table");
    """ % {"T": T}
    if q.ref is not None:
        body += """
        let b = u.scale().to_bits();
        let e = %(T)s_SCALE_BITS[i];
        let d = if b > e { b - e } else { e - b };
        assert!(d <= %(T)s_ULPS[i], "scale equals the definition chained to the reference unit");
        assert!(<%(p)s%(Q)s as HasRefUnit>::REF_UNIT == %(T)s_IDENTS[%(T)s_REF], "reference unit");
        assert!(<%(p)s%(U)s as LinearScaledUnit>::REF_UNIT == %(T)s_IDENTS[%(T)s_REF], "reference unit (unit type)");
        assert!(%(T)s_IDENTS[%(T)s_REF].scale().to_bits() == 1.0f64.to_bits(), "reference unit has scale one");
        """ % {"T": T, "p": p, "Q": q.name, "U": q.unit_type}
    body += "        kani::cover!(i == %s_N - 1, \"last unit reachable\");\n" % T
    return Harness("table_%s_%s" % (q.crate[:5], q.name.lower()), body, unwind=max(maxlen, len(q.units)) + 2,
                   key="f64 %s::%s table" % (q.crate, q.name),
                   sample={"harness": "table_" + q.name.lower(), "symbolic": "unit index i < %d" % len(q.units),
                           "asserts": "name/symbol/prefix/scale bits (0 ulp if the definition is a terminating decimal, 2 ulp otherwise) of unit i == spec row i"})


def harness_dec(q):
    T = q.name.upper()
    p = G.qpath(q)
    maxlen = max(len(u.name.encode()) for u in q.units) + 2
    body = """
        let i: usize = kani::any();
        kani::assume(i < %(T)s_N);
        let u = %(T)s_IDENTS[i];
        assert!(u.name() == %(T)s_NAMES[i], "name is the identifier with underscores shown as spaces");
        assert!(u.symbol() == %(T)s_SYMS[i], "symbol matches the published symbol");
        assert!(u.si_prefix() == %(T)s_PREFIX[i], "SI prefix matches the definition table");
    """ % {"T": T}
    if q.ref is not None:
        # concrete unit loop for the decimal scale (symbolic units make fpdec's comparison explode)
        for u in q.units:
            e = G.dec_lit(u.scale)
            if u.terminating:
                body += '        assert!(%s%s::%s.scale() == %s, "scale equals the definition chained to the reference unit");\n' % (p, q.unit_type, u.variant, e)
            else:
                body += ('        { let d = %s%s::%s.scale() - %s; assert!(d <= Decimal::new_raw(1, 18) && d >= Decimal::new_raw(-1, 18), '
                         '"scale equals the definition to the precision of the amount type"); }\n') % (p, q.unit_type, u.variant, e)
        body += '        assert!(<%s%s as HasRefUnit>::REF_UNIT == %s_IDENTS[%s_REF], "reference unit");\n' % (p, q.name, T, T)
        body += '        assert!(%s_IDENTS[%s_REF].scale() == Decimal::ONE, "reference unit has scale one");\n' % (T, T)
    body += "        kani::cover!(i == %s_N - 1, \"last unit reachable\");\n" % T
    return Harness("table_%s" % q.name.lower(), body, unwind=max(maxlen, len(q.units)) + 2, key="dec %s::%s table" % (q.crate, q.name),
                   sample={"harness": "table_" + q.name.lower() + " (decimal)", "symbolic": "unit index (strings, prefixes); scales by concrete unit loop",
                           "asserts": "exact decimal scale for terminating definitions, |delta| <= 1e-18 otherwise"})


def prefix_consistency(report):
    """the scales of two SI-prefixed units of a quantity differ by exactly 10^(e1-e2): shown on the exact
    rationals of the table; the harnesses show code == table"""
    bad = []
    n = 0
    for q in catalogue.CATALOGUE + catalogue.ASTRO:
        pu = [u for u in q.units if u.prefix is not None and u.scale is not None]
        for x in pu:
            for y in pu:
                n += 1
                if x.scale / y.scale != F(10) ** (catalogue.PREFIX_EXP[x.prefix] - catalogue.PREFIX_EXP[y.prefix]):
                    bad.append((q.name, x.ident, y.ident))
    report.oblig("spec table: SI-prefixed scales mutually consistent (%d pairs)" % n, not bad, False)
    if bad:
        report.inconcl("definition table inconsistent: %s" % bad[:5])


def native_compare(backend, qs, astro=False):
    """-> list of (key, text) mismatches of the native registry against the table"""
    labels = [(q.crate[:5] + ":" + q.name, G.qpath(q) + q.name, q.ref is not None) for q in qs]
    res, refs = regdump.dump(backend, labels, astro=astro, name="regdump-%s-%s" % (backend, "astro" if astro else "main"))
    out = []
    n = 0
    for q in qs:
        label = q.crate[:5] + ":" + q.name
        rows = {r["variant"]: r for r in res.get(label, [])}
        for u in q.units:
            n += 1
            kb = "%s:%s:%s:%s" % (backend, q.crate, q.name, u.variant)
            r = rows.get(u.variant)
            if r is None:
                out.append((kb + ":missing", "unit %s not iterated" % u.variant))
                continue
            if r["name"] != u.name:
                out.append((kb + ":name", "name %r, definition %r" % (r["name"], u.name)))
            if r["symbol"] != u.symbol:
                out.append((kb + ":symbol", "symbol %r, published %r" % (r["symbol"], u.symbol)))
            if r["prefix"] != u.prefix:
                out.append((kb + ":prefix", "SI prefix %r, definition %r" % (r["prefix"], u.prefix)))
            if u.scale is not None:
                if backend == "f64":
                    e = float(u.scale)
                    d = abs(G.f64_bits(r["scale"]) - G.f64_bits(e))
                    if d > (0 if u.terminating else 2):
                        out.append((kb + ":scale", "scale %r, definition %r (%d ulp apart; %s)" % (r["scale"], e, d, u.note or ("terminating" if u.terminating else "non-terminating"))))
                else:
                    e = round_dec18(u.scale)
                    if (u.terminating and F(r["scale"]) != u.scale) or (not u.terminating and abs(F(r["scale"]) - u.scale) > tol.EPS):
                        out.append((kb + ":scale", "scale %s, definition %s (difference %.3e)" % (r["scale"], e, float(abs(F(r["scale"]) - u.scale)))))
        if q.ref is not None and refs.get(label) != q.unit(q.ref).variant:
            out.append(("%s:%s:%s:ref" % (backend, q.crate, q.name), "reference unit %s, definition %s" % (refs.get(label), q.unit(q.ref).variant)))
    return out, n


def run(report, tier):
    report.level = "model_checking"
    report.trusted += ["Kani 0.68 MIR->GOTO translation", "CBMC 6.11 + cadical", "spec/catalogue.py (hand-written definition chains; astronomical crate: the rationals of its own unit docs and IAU constants)"]
    report.assumptions += ["Rust panics/format machinery not involved; String comparison through real memcmp loops (unwind = longest name + 2)"]
    prefix_consistency(report)
    crates = []
    kf = KaniCrate("c07f", "f64", astro=True, extra_src="".join(G.tables(q, "f64") for q in catalogue.CATALOGUE) +
                   "".join(G.tables(q, "f64", "_A").replace(q.name.upper() + "_", "A" + q.name.upper() + "_") for q in []))
    # astronomical types share names with the catalogue: separate table prefix
    astro_tables = ""
    for q in catalogue.ASTRO:
        t = G.tables(q, "f64")
        astro_tables += t.replace("const %s_" % q.name.upper(), "const A%s_" % q.name.upper())
    kf.prelude += astro_tables
    for q in catalogue.CATALOGUE:
        kf.add(harness_f64(q))
    for q in catalogue.ASTRO:
        h = harness_f64(q)
        h.code = h.code.replace("%s_" % q.name.upper(), "A%s_" % q.name.upper())
        kf.add(h)
    kf.add(Harness("canary_must_fail", "        let i: usize = kani::any();\n        kani::assume(i < LENGTH_N);\n        assert!(LENGTH_IDENTS[i].symbol() == \"m\");\n",
                   expect="fail", unwind=12, key="canary", symbolic=False))
    kd = KaniCrate("c07d", "dec", extra_src="use quantities::Decimal;\n" + "".join(G.tables(q, "dec") for q in catalogue.CATALOGUE))
    for q in catalogue.CATALOGUE:
        kd.add(harness_dec(q))
    import concurrent.futures as cf
    with cf.ThreadPoolExecutor(max_workers=2) as ex:
        f1 = ex.submit(kf.run, report, (480 if tier == "quick" else 3000), 12, 6)
        f2 = ex.submit(kd.run, report, (480 if tier == "quick" else 3000), 12, 6)
        f1.result()
        f2.result()
    report.functions.update(["generated Unit::name/symbol/si_prefix, LinearScaledUnit::scale, REF_UNIT of 14 catalogue types (f64, decimal) and 4 astronomical types",
                             "Amnt! literal conversion (f64 cast / Dec!)"])
    report.bounds.update({"units": "every unit of 14 catalogue quantities x 2 back-ends and of the 4 astronomical quantities (f64), by symbolic index",
                          "scale_tolerance": "f64: 0 ulp (terminating decimal definition) / 2 ulp (non-terminating); decimal: exact / 1e-18"})
    pend = getattr(report, "pending_kani", [])
    report.pending_kani = []
    failed = {(c.name, h.name) for c, h, r in pend}
    if pend or tier == "thorough":
        # native replay / identification of the failing units
        found = []
        total = 0
        for backend, qs, astro in (("f64", catalogue.CATALOGUE, False), ("f64", catalogue.ASTRO, True), ("dec", catalogue.CATALOGUE, False)):
            try:
                mism, n = native_compare(backend, qs, astro)
            except common.Inconclusive as e:
                report.inconcl(str(e))
                continue
            total += n
            found += mism
        report.traces_validated += total
        for key, text in found:
            p = common.write_replay("C07", key, {"property": "C07", "key": key, "what": text, "engine": "native registry dump",
                                                 "how_to_replay": "./check run C07 (the registry dump is rebuilt from /repo and compared with spec/catalogue.py)"})
            report.violation(key, "%s: %s" % (key, text), p)
        for c, h, r in pend:
            crate_be = "dec" if c.name == "c07d" else "f64"
            tname = h.key.split("::")[-1].split(" ")[0]
            hit = [k for k, _ in found if k.startswith(crate_be + ":") and (":%s:" % tname) in k]
            if not hit:
                report.inconcl("harness %s failed (%s) but the native registry dump shows no difference from the table" % (h.name, r.failed[:2]))
