"""Shared machinery for the derived operator instances (C04, C05, C18)."""
from fractions import Fraction as F

from spec import tolerances as tol
from props import e2common as E


def trait_of(op):
    return "Mul" if op == "mul" else "Div"


def callee(inst, form="vv"):
    a, op, b, r = inst
    l = ("&" + a) if form[0] == "r" else a
    rr = ("&" + b) if form[1] == "r" else b
    return "<%s as %s<%s>>::%s" % (l, trait_of(op), rr, op)


def run_op(run, st, inst, ua, ub, a, b, form="vv"):
    """execute one derived operator instance on symbolic amounts; -> outcomes"""
    qa = run.qty(st, inst[0], a, ua)
    qb = run.qty(st, inst[2], b, ub)
    la = run.ref(st, qa) if form[0] == "r" else qa
    lb = run.ref(st, qb) if form[1] == "r" else qb
    return run.call(st, callee(inst, form), [la, lb])


def result_parts(run, inst, o):
    """-> (unit variant, amount) of an outcome of type inst[3]"""
    r = inst[3]
    if r == run.w.AMT:
        return "One", o.value
    return run.unit_of(o.state, r, o.value), run.amount_of(o.state, r, o.value)


def fold_scale(w, inst, ua, ub):
    """sa o sb computed in the amount type, from the code-reported scales"""
    from engine.mirsmt import theories as T
    th = T.Theory(w.backend)
    sa, sb = w.scale_exact(inst[0], ua), w.scale_exact(inst[2], ub)
    return th.fold("Mul" if inst[1] == "mul" else "Div", sa, sb)


def natural_unit(w, inst, ua, ub):
    """first unit of the result type (iteration order) whose scale equals sa o sb, else None"""
    s = fold_scale(w, inst, ua, ub)
    r = inst[3]
    for u in w.units(r):
        if w.scale_exact(r, u) == s:
            return u, s
    return None, s


def unit_pairs(d, inst):
    return [(ua, ub) for ua in d["units"][inst[0]] for ub in d["units"][inst[2]]]
