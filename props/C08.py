"""C08 Construction and scaling by numbers are exact and unit-preserving -- E1 + E2.

E1 (Kani, every f64 bit pattern incl. NaN/inf/-0, symbolic unit): new / amount*unit /
unit*amount store the amount bit-identically and the unit; k*q, q*k, q/k keep the unit;
the dimensionless amount behaves as a quantity with the unit ONE (empty symbol, scale one).
E2 (T_uf, both back-ends): the amount of k*q, q*k, q/k is exactly the term fmul(k,a),
fmul(a,k), fdiv(a,k); construction stores the term a.
"""
from engine.mirsmt import frontend, pool as mpool
from engine.kani.runner import KaniCrate, Harness, confirm_failures
from spec import catalogue
from props import e2common as E
from props import kanigen as G
from props import synthdefs


def task(t):
    import z3
    from engine.mirsmt import driver, theories as T
    key, q = t
    w = mpool.world(key)
    be = w.backend
    R = mpool.TaskResult()
    sv = driver.Solver(timeout_ms=E.query_timeout_ms())
    AMT = w.AMT
    for u in w.units(q):
        pair = "%s %s[%s]" % (be, q, u)
        th = T.TUf(be)
        run = driver.Run(w, th, prune=False)
        a, k = th.var("a"), th.var("k")
        st = run.state()
        v = run.qty(st, q, a, u)
        ok = run.unit_of(st, q, v) == u
        res, _ = sv.check(th.cons + [run.amount_of(st, q, v).term != a.term])
        R.oblig(pair + " new/amount/unit", ok and res == "unsat", True, {"obligation": pair + " new/amount/unit", "theory": "T_uf", "goal": "amount() is the term a, unit() is the unit"})
        if q == AMT:
            continue
        uv = w.unit(q, u)
        forms = [("amount*unit", "<%s as Mul<%s>>::mul" % (AMT, w.qty[q]), [a, uv], a),
                 ("unit*amount", "<%s as Mul<%s>>::mul" % (w.qty[q], AMT), [uv, a], a),
                 ("k*q", "<%s as Mul<%s>>::mul" % (AMT, q), [k, v], th.bin("Mul", k, a)),
                 ("q*k", "<%s as Mul<%s>>::mul" % (q, AMT), [v, k], th.bin("Mul", a, k)),
                 ("q/k", "<%s as Div<%s>>::div" % (q, AMT), [v, k], th.bin("Div", a, k))]
        for name, callee, args, want in forms:
            s2 = run.state()
            outs = run.call(s2, callee, args)
            good = len(outs) == 1 and not outs[0].panic
            if good:
                o = outs[0]
                good = run.unit_of(o.state, q, o.value) == u
                res, _ = sv.check(th.cons + o.pc + [run.amount_of(o.state, q, o.value).term != want.term])
                good = good and res == "unsat"
            R.oblig("%s %s" % (pair, name), good, True, {"obligation": "%s %s" % (pair, name), "theory": "T_uf", "goal": "unit kept, amount is exactly the amount type's own operation"})
            if not good:
                R.candidates.append(E.cand("C08", "scalar", be, w, {"k*q": "scalar_mul_l", "q*k": "scalar_mul_r", "q/k": "scalar_div"}.get(name, "scalar_mul_l"), [q], [u], None, pair + " " + name))
        R.absorb_exec(run.ex)
    R.absorb_solver(sv)
    return R


def oracle(c, out, scales):
    import math
    from engine.replay import gen as rgen
    be = c["backend"]
    unit, r = rgen.parse_q(be, out)
    a, k = E.amount_value(be, c["amounts"][0]), E.amount_value(be, c["amounts"][1])
    if unit == "PANIC":
        return (be == "f64"), "panicked"
    if unit != c["units"][0]:
        return True, "unit changed to %s" % unit
    if be == "f64":
        if math.isnan(a) or math.isnan(k):
            return None, "NaN"
        want = {"scalar_mul_l": k * a, "scalar_mul_r": a * k, "scalar_div": (a / k) if k != 0 else None}[c["op"]]
        if want is None:
            return None, "zero divisor"
        if math.isnan(want):
            return (not math.isnan(r)), "%s of %r and %r: %r, amount type gives NaN" % (c["op"], a, k, r)
        return (rgen.f64_bits(r) != rgen.f64_bits(want)), "%s of %r and %r: %r, amount type gives %r" % (c["op"], a, k, r, want)
    from engine.mirsmt.theories import round_dec18
    if c["op"] == "scalar_div" and k == 0:
        return None, "zero"
    want = {"scalar_mul_l": round_dec18(k * a), "scalar_mul_r": round_dec18(a * k), "scalar_div": round_dec18(a / k) if k != 0 else None}[c["op"]]
    return (r != want), "%s: %s, amount type gives %s" % (c["op"], r, want)


def probes2(c):
    out = E.probe_amounts_2(c)
    if c["backend"] == "f64":
        sp = [-3.0, float("inf"), float("-inf"), -0.0, 0.0, 5e-324, 1.7976931348623157e308, 1e-310]
        ks = [0.0, -0.0, 1.0, float("inf"), 1e-310, 3.0]
        out = [[rgen_bits(x), rgen_bits(y)] for x in sp for y in ks] + out
    return out


def rgen_bits(x):
    from engine.replay import gen as rgen
    return rgen.f64_bits(x)


def kani_part(report, tier):
    pre = G.PRELUDE + synthdefs.SYNTH_RS + "".join(G.tables(q, "f64") for q in catalogue.CATALOGUE)
    pre += G.tables(synthdefs.PILE, "f64") + G.tables(synthdefs.TRI, "f64")
    kc = KaniCrate("c08", "f64", extra_src=pre)
    for q in catalogue.CATALOGUE + [synthdefs.PILE, synthdefs.TRI]:
        T = q.name.upper()
        p = G.qpath(q)
        kc.add(Harness("store_" + q.name.lower(), """
        let a: f64 = kani::any();
        let k: f64 = kani::any();
        let i: usize = kani::any();
        kani::assume(i < %(T)s_N);
        let u = %(T)s_IDENTS[i];
        let q1 = <%(Q)s as Quantity>::new(a, u);
        assert!(q1.amount().to_bits() == a.to_bits() && q1.unit() == u, "constructor stores amount and unit");
        let q2 = a * u;
        assert!(q2.amount().to_bits() == a.to_bits() && q2.unit() == u, "amount * unit stores amount and unit");
        let q3 = u * a;
        assert!(q3.amount().to_bits() == a.to_bits() && q3.unit() == u, "unit * amount stores amount and unit");
        assert!((k * q1).unit() == u, "number * value keeps the unit");
        assert!((q1 * k).unit() == u, "value * number keeps the unit");
        assert!((q1 / k).unit() == u, "value / number keeps the unit");
        kani::cover!(a.is_nan() && i == %(T)s_N - 1, "NaN amount, last unit");
        kani::cover!(a == 0.0 && a.is_sign_negative(), "negative zero");
        """ % {"T": T, "Q": p + q.name}, unwind=len(q.units) + 2, key="f64 %s storage" % q.name,
                       sample={"harness": "store_" + q.name.lower(), "symbolic": "a, k: any f64 bit pattern; unit index",
                               "asserts": "new / a*u / u*a store a bit-identically with the unit; k*q, q*k, q/k keep the unit"}))
    kc.add(Harness("amount_is_quantity", """
        let a: f64 = kani::any();
        let q = <AmountT as Quantity>::new(a, ONE);
        assert!(q.to_bits() == a.to_bits());
        assert!(q.amount().to_bits() == a.to_bits());
        assert!(q.unit() == ONE);
        assert!(ONE.symbol() == "", "the only unit of the dimensionless amount has an empty symbol");
        assert!(ONE.scale().to_bits() == 1.0f64.to_bits(), "and scale one");
        assert!(ONE.si_prefix().is_none());
        assert!(ONE.is_ref_unit());
        assert!((a * ONE).to_bits() == a.to_bits());
        assert!((ONE * a).to_bits() == a.to_bits());
        let mut n = 0;
        for u in <AmountT as Quantity>::iter_units() { assert!(u == ONE); n += 1; }
        assert!(n == 1);
        assert!(<AmountT as HasRefUnit>::_fit(a).to_bits() == a.to_bits());
        assert!(a.convert(ONE).to_bits() == a.to_bits());
        kani::cover!(a.is_nan(), "NaN");
    """, unwind=4, key="f64 AmountT as quantity"))
    kc.add(Harness("canary_must_fail", "        let a: f64 = kani::any();\n        let q = a * quantities::length::METER;\n        assert!(q.amount() == a);\n",
                   expect="fail", key="canary", symbolic=False))
    report.bounds["kani_storage"] = "every f64 bit pattern for amount and factor, every unit (symbolic index) of 14 catalogue types, a synthetic single-unit and a synthetic no-reference type, AmountT"
    kc.run(report, timeout=(480 if tier == "quick" else 3000))
    confirm_failures(report)


def run(report, tier):
    E.setup_report(report, "C08")
    report.trusted += ["Kani 0.68 / CBMC 6.11 (storage and unit preservation on all f64 bit patterns)"]
    backends = ["f64", "dec"]
    import concurrent.futures as cf
    from engine import common
    keys = E.dump_worlds(backends, astro=True, fixture=True)
    from engine.replay import gen as rgen
    rgen.EXTRA_SRC = synthdefs.SYNTH_RS
    pool = mpool.Pool(jobs=max(2, common.ncpu() - 8))
    try:
        with cf.ThreadPoolExecutor(max_workers=1) as ex:
            fut = ex.submit(kani_part, report, tier)
            desc = E.describe_worlds(pool, keys)
            tasks = [(keys[label], q) for label in keys for q in desc[label]["qty"] if not (label.startswith("fix") and q not in desc[label].get("own", []))]
            report.bounds["e2_exactness"] = "symbolic (uninterpreted) amounts a, k: every unit of every quantity type in the MIR of both back-ends (with and without reference unit, AmountT), of the astronomical crate and of the synthetic fixture types (single-unit, without reference unit, 24 units)"
            cands = pool.run(report, task, tasks)
            for c in cands:
                c["units"] = c["units"] + c["units"]
            pool.cross_check(report)
            E.native_confirm(report, "C08", cands, desc, oracle, probes=probes2)
            fut.result()
    finally:
        pool.close()
