"""C13 Rates relate two quantities consistently -- E1 + E2.

E1 (Kani, any f64 bit pattern, symbolic units): new / from_qty_vals store the four
components bit-identically, reciprocal swaps them, twice = identity.
E2 per (term type, per type) and unit triple (term unit, per unit, operand unit),
symbolic term amount ta, per multiple pm, operand amount v:
  rate * q, q * rate   unit = term unit, amount within tolerance of ta (v sv)/(pm sp)   (QF_NRA)
  q / rate             unit = per unit, amount within tolerance of pm (v sv)/(ta st)
  q * rate  ==  rate * q and  q * rate.reciprocal() == q / rate  as terms               (T_uf)
"""
from fractions import Fraction as F

from engine import common
from engine.mirsmt import frontend, pool as mpool
from engine.kani.runner import KaniCrate, Harness, confirm_failures
from engine.replay import gen as rgen
from spec import tolerances as tol
from spec import catalogue
from props import e2common as E
from props import kanigen as G
from props import synthdefs


def mk_rate(run, st, TQ, PQ, ta, tu, pm, pu):
    w = run.w
    outs = run.call(st, "rate::Rate::<%s, %s>::new" % (TQ, PQ), [ta, w.unit(TQ, tu), pm, w.unit(PQ, pu)])
    return outs[0].value


def dec_tol(T, be_round, ta, pm, v, c):
    """K (eps + |ta| (eps + eps (1 + |v|/(c c^)) / |pm|))"""
    chat = be_round(c)
    return T.Q(tol.KDEC_RATE * tol.EPS) * (1 + T.zabs(ta) * (1 + (1 + T.zabs(v) * T.Q(1 / (c * chat))) / T.zabs(pm)))


def dec_tol_value(ta, pm, v, c):
    from engine.mirsmt.theories import round_dec18
    chat = round_dec18(c)
    return tol.KDEC_RATE * tol.EPS * (1 + abs(ta) * (1 + (1 + abs(v) / (c * chat)) / abs(pm)))


def task(t):
    import z3
    from engine.mirsmt import driver, theories as T
    from engine.mirsmt.mirparse import Unsupported
    key, TQ, PQ, tu = t
    w = mpool.world(key)
    be = w.backend
    R = mpool.TaskResult()
    sv_ = driver.Solver(timeout_ms=E.query_timeout_ms())
    AMT = w.AMT
    for pu in w.units(PQ):
        forms = [("rate*q", PQ, w.units(PQ))]
        if PQ != AMT:
            forms.append(("q*rate", PQ, w.units(PQ)))
        if TQ != AMT:
            forms.append(("q/rate", TQ, w.units(TQ)))
        for form, OQ, ounits in forms:
            for vu in ounits:
                pair = "%s Rate<%s,%s>[%s per %s] %s [%s]" % (be, TQ, PQ, tu, pu, form, vu)
                th = T.TRe64() if be == "f64" else T.TRed()
                run = driver.Run(w, th)
                ta, pm, v = th.var("ta"), th.var("pm"), th.var("v")
                box = z3.And(E.box_nz(th, ta, tol.BOX64_3), E.box_nz(th, pm, tol.BOX64_3), E.box1(th, v, tol.BOX64_3))
                run.assume(box)
                st = run.state()
                rate = mk_rate(run, st, TQ, PQ, ta, tu, pm, pu)
                qv = run.qty(st, OQ, v, vu)
                if form == "rate*q":
                    outs = run.call(st, "<rate::Rate<%s, %s> as Mul<%s>>::mul" % (TQ, PQ, PQ), [rate, qv])
                elif form == "q*rate":
                    outs = run.call(st, "<%s as Mul<rate::Rate<%s, %s>>>::mul" % (PQ, TQ, PQ), [qv, rate])
                else:
                    outs = run.call(st, "<%s as Div<rate::Rate<%s, %s>>>::div" % (TQ, TQ, PQ), [qv, rate])
                R.absorb_exec(run.ex)
                s_t = lambda q_, u_: (w.scale_fr(q_, u_) if w.has_ref(q_) else F(1))
                if form == "q/rate":
                    RT, ru = PQ, pu
                    c = s_t(TQ, tu) / s_t(TQ, vu)
                    Tt = pm.term * v.term / (ta.term * T.Q(c))
                    num, den = pm, ta
                else:
                    RT, ru = TQ, tu
                    c = s_t(PQ, pu) / s_t(PQ, vu)
                    Tt = ta.term * v.term / (pm.term * T.Q(c))
                    num, den = ta, pm
                if (not w.has_ref(OQ)) and vu != (pu if form != "q/rate" else tu):
                    # operand type without reference unit in another unit than the rate's: the documented panic, never a number
                    okp = bool(outs) and all(o.panic for o in outs)
                    R.oblig(pair + " different units of a type without reference unit: panics", okp, False)
                    if not okp:
                        R.candidates.append(cand(be, w, form, TQ, PQ, tu, pu, vu, None, pair, "no-panic"))
                    continue
                for o in outs:
                    if o.panic:
                        R.oblig(pair + " no-panic", False)
                        R.candidates.append(cand(be, w, form, TQ, PQ, tu, pu, vu, None, pair, "panic"))
                        continue
                    unit = run.unit_of(o.state, RT, o.value)
                    R.oblig(pair + " unit", unit == ru, False)
                    if unit != ru:
                        R.candidates.append(cand(be, w, form, TQ, PQ, tu, pu, vu, None, pair, "unit"))
                    r = run.amount_of(o.state, RT, o.value)
                    hyp = [box] + th.cons + o.pc
                    if be == "f64":
                        goal = T.zabs(r.term - Tt) <= T.Q(tol.K64_RATE * tol.U) * T.zabs(Tt)
                    else:
                        from engine.mirsmt.theories import round_dec18
                        if round_dec18(c) == 0:
                            continue
                        hyp = hyp + [f for _, f in th.side]
                        goal = T.zabs(r.term - Tt) <= dec_tol(T, round_dec18, num.term, den.term, v.term, c)
                    res, model = sv_.check(hyp + [z3.Not(goal)], want_model=True, keep_sample=True)
                    R.oblig(pair + " value", res == "unsat", True, {"obligation": pair + " value", "theory": th.name, "verdict": res})
                    if res == "sat":
                        R.candidates.append(cand(be, w, form, TQ, PQ, tu, pu, vu, E.model_amounts(model, [ta, pm, v], be), pair, "value"))
                    elif res != "unsat":
                        R.inconclusive.append("%s: solver answered %s" % (pair, res))
                    if be == "f64":
                        for desc_, f in th.side:
                            res, _ = sv_.check([box] + th.cons + o.pc + [z3.Not(f)])
                            R.oblig(pair + " range:" + desc_[:24], res == "unsat", True)
                            if res != "unsat":
                                R.inconclusive.append("%s: T_re64 range side obligation not discharged (%s): %s" % (pair, res, desc_))
        # ---------------- mutually inverse: (rate * q) / rate returns q (f64, thorough tier; sum of the two tolerances)
        import os as _os
        if be == "f64" and _os.environ.get("VERIF_TIER") == "thorough" and TQ != AMT and PQ != AMT and w.has_ref(TQ) and w.has_ref(PQ):
            for vu in w.units(PQ)[:3]:
                pair = "%s Rate<%s,%s>[%s per %s] (rate*q)/rate [%s]" % (be, TQ, PQ, tu, pu, vu)
                th = T.TRe64()
                run = driver.Run(w, th)
                ta, pm, v = th.var("ta"), th.var("pm"), th.var("v")
                box = z3.And(E.box_nz(th, ta, tol.BOX64_3), E.box_nz(th, pm, tol.BOX64_3), E.box1(th, v, tol.BOX64_3))
                run.assume(box)
                st = run.state()
                rate = mk_rate(run, st, TQ, PQ, ta, tu, pm, pu)
                qv = run.qty(st, PQ, v, vu)
                o1 = run.call(st, "<rate::Rate<%s, %s> as Mul<%s>>::mul" % (TQ, PQ, PQ), [rate, qv])
                ok = len(o1) == 1 and not o1[0].panic
                if ok:
                    o2 = run.call(o1[0].state, "<%s as Div<rate::Rate<%s, %s>>>::div" % (TQ, TQ, PQ), [o1[0].value, rate])
                    ok = len(o2) == 1 and not o2[0].panic
                if ok:
                    back = o2[0].value
                    ok = run.unit_of(o2[0].state, PQ, back) == pu
                    r = run.amount_of(o2[0].state, PQ, back)
                    want = v.term * T.Q(w.scale_fr(PQ, vu) / w.scale_fr(PQ, pu))
                    res, _ = sv_.check([box] + th.cons + o2[0].pc + [z3.Not(T.zabs(r.term - want) <= T.Q(2 * tol.K64_RATE * tol.U) * T.zabs(want))])
                    ok = ok and res == "unsat"
                R.oblig(pair, ok, True, {"obligation": pair, "theory": "T_re64", "goal": "(rate*q)/rate is q (in the per unit) within the summed tolerance"})
                if not ok:
                    R.inconclusive.append("%s: not discharged" % pair)
                R.absorb_exec(run.ex)
        # ---------------- term identities (T_uf)
        if PQ != AMT or TQ != AMT:
            th = T.TUf(be)
            run = driver.Run(w, th, prune=False)
            ta, pm, v = th.var("ta"), th.var("pm"), th.var("v")
            if PQ != AMT and w.has_ref(PQ):
                for vu in w.units(PQ):
                    st = run.state()
                    rate = mk_rate(run, st, TQ, PQ, ta, tu, pm, pu)
                    qv = run.qty(st, PQ, v, vu)
                    o1 = run.call(st, "<rate::Rate<%s, %s> as Mul<%s>>::mul" % (TQ, PQ, PQ), [rate, qv])
                    o2 = run.call(st, "<%s as Mul<rate::Rate<%s, %s>>>::mul" % (PQ, TQ, PQ), [qv, rate])
                    ok = len(o1) == 1 and len(o2) == 1 and not o1[0].panic and not o2[0].panic
                    if ok:
                        r1, r2 = run.amount_of(o1[0].state, TQ, o1[0].value), run.amount_of(o2[0].state, TQ, o2[0].value)
                        res, _ = sv_.check(th.cons + [r1.term != r2.term])
                        ok = res == "unsat" and run.unit_of(o1[0].state, TQ, o1[0].value) == run.unit_of(o2[0].state, TQ, o2[0].value)
                    R.oblig("%s Rate<%s,%s>[%s per %s] rate*q == q*rate [%s]" % (be, TQ, PQ, tu, pu, vu), ok, True,
                            {"obligation": "rate*q and q*rate are the same term", "theory": "T_uf"})
            if TQ != AMT and PQ != AMT and w.has_ref(TQ):
                for vu in w.units(TQ):
                    st = run.state()
                    rate = mk_rate(run, st, TQ, PQ, ta, tu, pm, pu)
                    qv = run.qty(st, TQ, v, vu)
                    o1 = run.call(st, "<%s as Div<rate::Rate<%s, %s>>>::div" % (TQ, TQ, PQ), [qv, rate])
                    rec = run.call(st, "rate::Rate::<%s, %s>::reciprocal" % (TQ, PQ), [run.ref(st, rate)])[0].value
                    o2 = run.call(st, "<%s as Mul<rate::Rate<%s, %s>>>::mul" % (TQ, PQ, TQ), [qv, rec])
                    ok = len(o1) == 1 and len(o2) == 1 and not o1[0].panic and not o2[0].panic
                    if ok:
                        r1, r2 = run.amount_of(o1[0].state, PQ, o1[0].value), run.amount_of(o2[0].state, PQ, o2[0].value)
                        res, _ = sv_.check(th.cons + [r1.term != r2.term])
                        ok = res == "unsat" and run.unit_of(o1[0].state, PQ, o1[0].value) == run.unit_of(o2[0].state, PQ, o2[0].value) == pu
                    R.oblig("%s Rate<%s,%s>[%s per %s] q/rate == q*reciprocal [%s]" % (be, TQ, PQ, tu, pu, vu), ok, True,
                            {"obligation": "q / rate and q * rate.reciprocal() are the same term", "theory": "T_uf"})
            R.absorb_exec(run.ex)
    R.absorb_solver(sv_)
    return R


def cand(be, w, form, TQ, PQ, tu, pu, vu, amounts, key, kind):
    op = {"rate*q": "rate_mul", "q*rate": "qty_mul_rate", "q/rate": "qty_div_rate"}[form]
    return E.cand("C13", kind, be, w, op, [TQ, PQ], [tu, pu, vu], amounts, key)


def oracle(c, out, scales):
    import math
    be = c["backend"]
    TQ, PQ = c["types"]
    tu, pu, vu = c["units"]
    ta, pm, v = [E.amount_value(be, x) for x in c["amounts"]]
    if be == "f64" and not all(math.isfinite(x) for x in (ta, pm, v)):
        return None, "non-finite"
    unit, r = rgen.parse_q(be, out)
    if c.get("kind") == "no-panic":
        return (unit != "PANIC"), "value of a quantity without reference unit in another unit than the rate's was combined silently: %s" % out
    sc = lambda q, u: F(scales[q][u]) if q in scales else F(1)
    if c["op"] == "qty_div_rate":
        if ta == 0:
            return None, "zero"
        want_unit = pu
        cc = sc(TQ, tu) / sc(TQ, vu)
        Tt = F(pm) * F(v) / (F(ta) * cc)
        num, den = pm, ta
    else:
        if pm == 0:
            return None, "zero"
        want_unit = tu
        cc = sc(PQ, pu) / sc(PQ, vu)
        Tt = F(ta) * F(v) / (F(pm) * cc)
        num, den = ta, pm
    if unit == "PANIC":
        return (be == "f64"), "panicked: %s" % r
    if PQ in ("f64", "Decimal") and c["op"] == "qty_div_rate":
        want_unit = "One"
    if unit != want_unit and not (unit == "One" and want_unit == "One"):
        return True, "result unit %s, expected %s" % (unit, want_unit)
    if be == "f64":
        if not math.isfinite(r):
            return None, "non-finite result"
        ok = abs(F(r) - Tt) <= tol.K64_RATE * tol.U * abs(Tt)
    else:
        from engine.mirsmt.theories import round_dec18
        if round_dec18(cc) == 0:
            return None, "ratio below resolution"
        ok = abs(F(r) - Tt) <= dec_tol_value(F(num), F(den), F(v), cc)
    return (not ok), "%s with rate %s %s per %s %s, operand %s %s: %s %s, exact %.17g" % (c["op"], ta, tu, pm, pu, v, vu, r, unit, float(Tt))


def probes3(c):
    ps = E.probes(c["backend"])
    return [[ps[i % len(ps)], ps[(i * 3 + 1) % len(ps)], ps[(i * 7 + 2) % len(ps)]] for i in range(12)]


def kani_part(report, tier):
    pre = G.PRELUDE + synthdefs.SYNTH_RS
    for n in ("Length", "Duration", "Mass", "Energy", "Temperature"):
        pre += G.tables(catalogue.by_name(n), "f64")
    pre += G.tables(synthdefs.PILE, "f64")
    kc = KaniCrate("c13", "f64", extra_src=pre)
    combos = [("Length", "Duration"), ("AmountT", "Mass"), ("Pile", "Temperature"), ("Energy", "AmountT")]
    paths = {"Length": "quantities::length::Length", "Duration": "quantities::duration::Duration", "Mass": "quantities::mass::Mass",
             "Energy": "quantities::energy::Energy", "Temperature": "quantities::temperature::Temperature", "Pile": "crate::synth::Pile", "AmountT": "AmountT"}
    for tq, pq in combos:
        def unit(q, idx):
            return "ONE" if q == "AmountT" else "%s_IDENTS[%s]" % (q.upper(), idx)
        def bound(q, idx):
            return "true" if q == "AmountT" else "%s < %s_N" % (idx, q.upper())
        nmax = max([len(catalogue.by_name(x).units) if x not in ("AmountT", "Pile") else 1 for x in (tq, pq)])
        kc.add(Harness("rate_%s_%s" % (tq.lower(), pq.lower()), """
        let ta: f64 = kani::any();
        let pm: f64 = kani::any();
        let i: usize = kani::any();
        let j: usize = kani::any();
        kani::assume(%(bi)s && %(bj)s);
        let tu = %(tu)s;
        let pu = %(pu)s;
        let r = Rate::<%(TQ)s, %(PQ)s>::new(ta, tu, pm, pu);
        assert!(r.term_amount().to_bits() == ta.to_bits() && r.term_unit() == tu && r.per_unit_multiple().to_bits() == pm.to_bits() && r.per_unit() == pu,
                "a rate reports exactly the four components it was built from");
        let r2 = Rate::<%(TQ)s, %(PQ)s>::from_qty_vals(<%(TQ)s as Quantity>::new(ta, tu), <%(PQ)s as Quantity>::new(pm, pu));
        assert!(r2.term_amount().to_bits() == ta.to_bits() && r2.term_unit() == tu && r2.per_unit_multiple().to_bits() == pm.to_bits() && r2.per_unit() == pu,
                "from_qty_vals takes the components of the two values");
        let rc = r.reciprocal();
        assert!(rc.term_amount().to_bits() == pm.to_bits() && rc.term_unit() == pu && rc.per_unit_multiple().to_bits() == ta.to_bits() && rc.per_unit() == tu,
                "the reciprocal swaps term and per");
        let rr = rc.reciprocal();
        assert!(rr.term_amount().to_bits() == ta.to_bits() && rr.term_unit() == tu && rr.per_unit_multiple().to_bits() == pm.to_bits() && rr.per_unit() == pu,
                "reciprocal applied twice gives the original");
        kani::cover!(ta.is_nan() && pm == 0.0, "NaN term amount, zero per multiple");
        """ % {"TQ": paths[tq], "PQ": paths[pq], "tu": unit(tq, "i"), "pu": unit(pq, "j"), "bi": bound(tq, "i"), "bj": bound(pq, "j")},
                       unwind=nmax + 2, key="f64 Rate<%s,%s> components" % (tq, pq),
                       sample={"harness": "rate_%s_%s" % (tq.lower(), pq.lower()), "symbolic": "ta, pm: any f64 bit pattern; unit indices", "asserts": "accessors, from_qty_vals, reciprocal, double reciprocal"}))
    kc.add(Harness("canary_must_fail", "        let ta: f64 = kani::any();\n        let r = Rate::<quantities::length::Length, quantities::duration::Duration>::new(ta, quantities::length::METER, 1.0, quantities::duration::SECOND);\n        assert!(r.reciprocal().term_amount().to_bits() == ta.to_bits());\n",
                   expect="fail", key="canary", symbolic=False))
    report.bounds["kani_rate"] = "every f64 bit pattern for both amounts, every unit pair (symbolic indices) of Rate<Length,Duration>, Rate<AmountT,Mass>, Rate<Pile(single-unit),Temperature(no reference)>, Rate<Energy,AmountT>"
    kc.run(report, timeout=(480 if tier == "quick" else 3000))
    confirm_failures(report)


def run(report, tier):
    E.setup_report(report, "C13")
    report.trusted += ["Kani 0.68 / CBMC 6.11 (component storage on all f64 bit patterns)"]
    backends = ["f64", "dec"]
    import concurrent.futures as cf
    keys = E.dump_worlds(backends, astro=False, fixture=True)
    rgen.EXTRA_SRC = synthdefs.SYNTH_RS
    pool = mpool.Pool(jobs=max(2, common.ncpu() - 4))
    try:
        with cf.ThreadPoolExecutor(max_workers=1) as ex:
            fut = ex.submit(kani_part, report, tier)
            desc = E.describe_worlds(pool, keys)
            tasks = []
            for be in backends:
                amt = "f64" if be == "f64" else "Decimal"
                pairs = [("Length", "Duration"), ("Mass", amt), (amt, "Duration"), ("Mass", "Length")]
                if tier == "thorough":
                    pairs += [("DataVolume", "Duration"), ("Duration", "DataVolume"), ("Length", amt), ("Energy", "Mass")]
                for tq, pq in pairs:
                    for tu in desc[be]["units"][tq]:
                        tasks.append((be, tq, pq, tu))
                # single-unit and small synthetic types (fixture crate expanded by the real macro), mixed with catalogue types
                fx = "fix" + be
                for tq, pq in [("Pile", "Dose"), ("Dose", "Pile"), ("Pile", "Duration"), ("Dose", "Duration"), ("Pile", "Pile"), ("Tri", "Dose"), ("Dose", "Tri"), ("Tri", "Pile")]:
                    for tu in desc[fx]["units"][tq]:
                        tasks.append((keys[fx], tq, pq, tu))
            E.shuffle(tasks)
            report.bounds.update({"f64_amount_box": "2^-250 <= |ta|,|pm| <= 2^250, v = 0 or in the same box; every intermediate proved zero-or-normal",
                                  "decimal_amount_box": "|.| <= 1e17, ta, pm != 0, paths without fpdec overflow",
                                  "type_pairs": "quick: (Length,Duration), (Mass,AmountT), (AmountT,Duration), (Mass,Length), and with the synthetic single-unit Pile and 4-unit Dose: (Pile,Dose), (Dose,Pile), (Pile,Duration), (Dose,Duration), (Pile,Pile), and with the no-reference type Tri: (Tri,Dose), (Dose,Tri), (Tri,Pile); thorough adds (DataVolume,Duration), (Duration,DataVolume), (Length,AmountT), (Energy,Mass); all unit triples"})
            cands = pool.run(report, task, tasks)
            pool.cross_check(report)
            E.native_confirm(report, "C13", cands, desc, oracle, probes=probes3)
            fut.result()
    finally:
        pool.close()
