"""Rust table generation for the Kani harness crates, from spec/catalogue.py."""
import os
import re
import struct
from fractions import Fraction as F

from engine import common
from engine.kani.runner import rust_str
from engine.mirsmt.theories import round_dec18

PRELUDE = """
fn nth_unit<U: Unit>(i: usize) -> U {
    let mut k = 0usize;
    for u in U::iter() {
        if k == i { return u; }
        k += 1;
    }
    panic!("index out of range");
}
"""


def qpath(q):
    return ("%s::%s::" % (q.crate, q.module)) if q.module else (q.crate + "::")


def decl_order(q):
    """declaration order of the unit attributes in /repo (only used to order ties)"""
    if q.crate == "crate":          # synthetic definition: the spec lists the units in declaration order
        return getattr(q, "decl", None) or [u.ident for u in q.units]
    if q.crate == "quantities":
        f = os.path.join(common.REPO, "src", q.module + ".rs")
    else:
        f = os.path.join(common.REPO, "astronimical_quantities", "src", "lib.rs")
    txt = open(f).read()
    m = re.search(r"((?:#\[[^\]]*\]\s*|///[^\n]*\n\s*)+)pub struct %s\b" % q.name, txt, re.S)
    block = m.group(1) if m else txt
    return re.findall(r"#\[(?:ref_)?unit\(\s*(\w+)", block)


def expected_order(q):
    """iteration order required by C09: non-decreasing scale, reference unit first among
    scale-one units, declaration order among other ties; name order without reference unit"""
    if q.ref is None:
        return sorted(q.units, key=lambda u: u.name)
    decl = decl_order(q)
    pos = {ident: k for k, ident in enumerate(decl)}
    rest = [u for u in q.units if u.ident != q.ref]
    rest.sort(key=lambda u: pos.get(u.ident, 10 ** 6))
    out = [q.unit(q.ref)] + rest
    return sorted(out, key=lambda u: u.scale)


def f64_bits(x):
    return struct.unpack("<Q", struct.pack("<d", float(x)))[0]


def dec_lit(fr):
    """Decimal::new_raw literal of an exact terminating rational, or of its half-even rounding to 18 places"""
    fr = round_dec18(F(fr))
    n = 0
    v = fr
    while v.denominator != 1:
        v *= 10
        n += 1
    return "Decimal::new_raw(%d_i128, %d_u8)" % (v.numerator, n)


def tables(q, backend, prefix=""):
    """Rust consts for one quantity type; names are prefixed with the type name"""
    p = qpath(q)
    T = q.name.upper() + prefix
    us = q.units
    order = expected_order(q)
    n = len(us)
    s = "const %s_N: usize = %d;\n" % (T, n)
    s += "const %s_IDENTS: [%s%s; %d] = [%s];\n" % (T, p, q.unit_type, n, ", ".join("%s%s::%s" % (p, q.unit_type, u.variant) for u in us))
    s += "const %s_ORDER: [%s%s; %d] = [%s];\n" % (T, p, q.unit_type, n, ", ".join("%s%s::%s" % (p, q.unit_type, u.variant) for u in order))
    s += "const %s_CONSTS: [%s%s; %d] = [%s];\n" % (T, p, q.unit_type, n, ", ".join("%s%s" % (p, u.const) for u in us))
    s += "const %s_NAMES: [&str; %d] = [%s];\n" % (T, n, ", ".join(rust_str(u.name) for u in us))
    s += "const %s_SYMS: [&str; %d] = [%s];\n" % (T, n, ", ".join(rust_str(u.symbol) for u in us))
    s += "const %s_ORDER_SYMS: [&str; %d] = [%s];\n" % (T, n, ", ".join(rust_str(u.symbol) for u in order))
    s += "const %s_PREFIX: [Option<SIPrefix>; %d] = [%s];\n" % (T, n, ", ".join(("Some(SIPrefix::%s)" % u.prefix) if u.prefix else "None" for u in us))
    if q.ref is not None:
        if backend == "f64":
            s += "const %s_SCALE_BITS: [u64; %d] = [%s];\n" % (T, n, ", ".join("0x%016x" % f64_bits(float(u.scale)) for u in us))
            s += "const %s_ULPS: [u64; %d] = [%s];\n" % (T, n, ", ".join("0" if u.terminating else "2" for u in us))
            s += "const %s_ORDER_SCALE_BITS: [u64; %d] = [%s];\n" % (T, n, ", ".join("0x%016x" % f64_bits(float(u.scale)) for u in order))
        s += "const %s_REF: usize = %d;\n" % (T, [u.ident for u in us].index(q.ref))
    return s
