"""Shared pieces of the E2-based property checks."""
import json
import math
import os
import random
from fractions import Fraction as F

from engine import common
from engine.replay import gen as rgen
from spec import tolerances as tol


def query_timeout_ms():
    return 60000 if os.environ.get("VERIF_TIER") == "thorough" else 30000


def shuffle(tasks):
    random.Random(common.seed()).shuffle(tasks)


ASTRO_KEY = ("crate", "astro", "f64")


def dump_worlds(backends=("f64", "dec"), astro=True, fixture=False):
    """dump /repo (and the astronomical crate) -- must run BEFORE the worker pool is forked; -> label -> pool key"""
    import os
    from engine.mirsmt import frontend
    frontend.dump_repo_parallel(list(backends))
    keys = {be: be for be in backends}
    if astro and "f64" in backends:
        d = frontend.dump_crate("astro", os.path.join(common.REPO, "astronimical_quantities"), "f64", feats=None, no_default=False)
        d.label = "astro"
        d.crate_path = "astronomical_quantities"
        keys["astro"] = ASTRO_KEY
    if fixture:
        from props import synthdefs
        for be in backends:
            cdir = frontend.make_crate("fixture", synthdefs.SYNTH_RS, be, "std,doc")
            d = frontend.dump_crate("fixture", cdir, be, feats=None, no_default=False, keep_catalogue=True)
            d.label = "fix" + be
            d.crate_path = "crate"
            keys["fix" + be] = ("crate", "fixture", be)
    return keys


def describe_worlds(pool, keys):
    return {label: pool.describe(k) for label, k in keys.items()}


def ref_tasks(keys, desc, per_unit=True):
    """(pool key, quantity type, unit) for every type with a reference unit in every world"""
    out = []
    for label, key in keys.items():
        d = desc[label]
        for q in d["qty"]:
            if label.startswith("fix") and q not in d.get("own", []):
                continue        # the fixture world also contains the catalogue (already covered by its own world)
            if d["has_ref"][q]:
                for u in d["units"][q]:
                    out.append((key, q, u))
    return out


def setup_report(report, prop):
    report.level = "model_checking"
    report.trusted += [
        "rustc -Zunpretty=mir output as the meaning of the source",
        "engine/mirsmt parser + executor (validated by concrete differential runs against the native build)",
        "summaries of core::iter / Option / bool::then listed under stubs_and_summaries",
        "IEEE-754 binary64 round-to-nearest model: |r - exact| <= 2^-53 |exact| inside the normal range",
        "fpdec 0.11 contract: mul/div round to <= 18 fractional digits (|err| <= 1e-18), add/sub/cmp exact, panic only on zero divisor or |result| >= ~1.7e20",
        "z3 (Python API 5.1)",
    ]
    report.assumptions += [
        "unit arguments are concrete per query (all ordered unit tuples enumerated); amounts are symbolic",
        "f64 tolerance obligations: amounts are 0 or inside the stated box; NaN/inf/subnormal are outside (covered by E1 where claimed)",
        "decimal tolerance obligations: |amount| <= 1e17 and no fpdec overflow on the path (panic-freedom is C18's subject)",
    ]


def box1(th, a, lo_hi=None):
    """box for one symbolic amount multiplied by constants"""
    import z3
    from engine.mirsmt import theories as T
    if th.backend == "f64":
        lo, hi = lo_hi or tol.BOX64_1
        x = T.zabs(a.term)
        return z3.Or(a.term == 0, z3.And(x >= T.Q(lo), x <= T.Q(hi)))
    return T.zabs(a.term) <= T.Q(tol.BOXDEC)


def box_nz(th, a, lo_hi):
    import z3
    from engine.mirsmt import theories as T
    x = T.zabs(a.term)
    if th.backend == "f64":
        lo, hi = lo_hi
        return z3.And(x >= T.Q(lo), x <= T.Q(hi))
    return z3.And(x <= T.Q(tol.BOXDEC), x > 0)


def bounds_box1():
    return {"f64_amount_box": "a = 0 or 2^-900 <= |a| <= 2^900 (every intermediate proved zero-or-normal)",
            "decimal_amount_box": "|a| <= 1e17, paths without fpdec overflow",
            "units": "every ordered unit pair of every type listed"}


def paths_for(w):
    out = {}
    for q, m in w.module.items():
        if q == w.AMT:
            continue
        own = getattr(w.dump, "own_types", None)
        crate = getattr(w.dump, "crate_path", "quantities") if (own is None or q in own) else "quantities"
        out[q] = "%s::%s::%s" % (crate, m, q) if m else "%s::%s" % (crate, q)
    return out


def cand(prop, kind, be, w, op, types, units, amounts, key, note="", **kw):
    d = {"prop": prop, "kind": kind, "backend": be, "world": getattr(w.dump, "label", be), "op": op, "types": list(types), "units": list(units),
         "amounts": list(amounts) if amounts is not None else None, "key": key, "note": note, "paths": paths_for(w)}
    d.update(kw)
    return d


def to_amount(be, fr):
    """nearest representable amount of a rational: f64 bit pattern or decimal string"""
    fr = F(fr)
    if be == "f64":
        try:
            x = float(fr)
        except OverflowError:
            x = math.copysign(1.7e308, fr)
        return rgen.f64_bits(x)
    n = fr * 10 ** 18
    k = round(n)
    s = "-" if k < 0 else ""
    k = abs(k)
    return "%s%d.%018d" % (s, k // 10 ** 18, k % 10 ** 18)


def amount_value(be, a):
    if be == "f64":
        return rgen.bits_f64(a)
    return F(a)


def path_amounts(sv, hyp, amounts, be):
    """amounts of some model of the hypotheses (path condition): a concrete input that takes this path"""
    res, model = sv.check(hyp, want_model=True)
    if res != "sat":
        return None
    return model_amounts(model, amounts, be)


def model_amounts(model, amounts, be):
    from engine.mirsmt import driver
    out = []
    for a in amounts:
        fr = driver.model_fraction(model, a.term)
        out.append(to_amount(be, fr if fr is not None else 1))
    return out


def is_finite_in_box(c):
    return True


PROBES_F64 = [0.0, 1.0, 3.0, 0.1, 2.5, 17.4, 1e10, 1e-7, -1.0, -36.9, 123456.789, 7.0e15, 1.0 / 3.0]
PROBES_DEC = ["0", "1", "3", "0.1", "2.5", "17.4", "10000000000", "0.0000001", "-1", "-36.9", "123456.789", "0.333333333333333333", "7"]


def probes(be):
    return [rgen.f64_bits(x) for x in PROBES_F64] if be == "f64" else list(PROBES_DEC)


def probe_amounts_1(c):
    return [[p] for p in probes(c["backend"])]


def probe_amounts_2(c):
    ps = probes(c["backend"])
    out = [[ps[0], ps[1]], [ps[0], ps[4]], [ps[1], ps[0]], [ps[0], ps[0]]]
    for i, p in enumerate(ps):
        out.append([p, ps[(i * 5 + 3) % len(ps)]])
        out.append([p, p])
    return out


def native_confirm(report, prop, cands, desc, oracle, probes=None, max_groups=40, by_role=False, per_group=3):
    """Replay candidates natively.  One group per candidate key; a group is a
    VIOLATION iff some concrete case (the solver's model first, then probe
    amounts) makes `oracle` report a violation on the native output."""
    import time
    if not cands:
        return
    t0 = time.time()
    groups = {}
    for c in cands:
        # by_role: one group per call-site role (all unit pairs of that role are the same finding);
        # a group counts as reproduced as soon as one of its candidates reproduces
        groups.setdefault((c["backend"], role_key(c) if by_role else c["key"]), []).append(c)
    keys = sorted(groups)
    # when truncating, take candidates round-robin over (backend, kind) so that one noisy family cannot crowd out the others
    buckets = {}
    for k in keys:
        buckets.setdefault((k[0], groups[k][0]["kind"]), []).append(k)
    keys = []
    while any(buckets.values()):
        for bk in sorted(buckets):
            if buckets[bk]:
                keys.append(buckets[bk].pop(0))
    if len(keys) > max_groups:
        report.notes.append("%d candidate groups; native replay of the first %d" % (len(keys), max_groups))
    todo = keys[:max_groups]
    by_backend = {}
    for k in todo:
        c0 = groups[k][0]
        cases = []
        for c in groups[k][:per_group]:
            if c.get("amounts") is not None:
                cases.append(dict(c))
        if probes and c0["op"] not in ("none",):
            for cx in (groups[k][:per_group] if by_role else [c0]):
                for am in _call_probes(probes, cx, desc[cx.get("world", k[0])]):
                    c2 = dict(cx)
                    c2["amounts"] = am
                    cases.append(c2)
        if not cases:
            c2 = dict(c0)
            c2["amounts"] = (probes(c0)[0] if probes else [])
            cases.append(c2)
        by_backend.setdefault(k[0], []).append((k, cases))
    reproduced = set()
    for be, items in by_backend.items():
        flat = [(k, c) for k, cs in items for c in cs]
        try:
            outs = rgen.ReplayCrate(be).run([c for _, c in flat])
        except common.Inconclusive as e:
            report.inconcl(str(e))
            continue
        report.traces_validated += len(flat)
        for (k, c), out in zip(flat, outs):
            if k in reproduced:
                continue
            bad, text = oracle(c, out, desc[c.get("world", be)]["scales"])
            if bad:
                reproduced.add(k)
                art = {"property": prop, "key": c["key"], "kind": c["kind"], "case": c, "native_output": out, "oracle": text,
                       "how_to_replay": "./check replay <this file>  (rebuilds the replay binary from /repo and re-evaluates the oracle)"}
                p = common.write_replay(prop, "%s_%s" % (be, c["key"]), art)
                report.violation(role_key(c), "%s [%s] %s" % (c["key"], c["kind"], text), p)
    for k in todo:
        if k not in reproduced:
            c0 = groups[k][0]
            report.inconcl("candidate %s [%s] (solver: sat) did not reproduce natively on the model or probe amounts" % (c0["key"], c0["kind"]))
    for k in keys[max_groups:]:
        c0 = groups[k][0]
        report.inconcl("candidate %s [%s] not replayed (too many candidates)" % (c0["key"], c0["kind"]))
    report.time_engine("native_replay", time.time() - t0)


def _call_probes(probes, c, d):
    try:
        return probes(c, d)
    except TypeError:
        return probes(c)


def role_key(c):
    return c.get("role") or ("%s:%s:%s" % (c["backend"], c["kind"], c["key"]))


# ---------------------------------------------------------------------------
# translator validation: concrete differential executor vs. native build

def tv_task(t):
    """run the executor on concrete inputs; returns the predicted native output strings"""
    from engine.mirsmt import driver, theories as T, pool as mpool
    from engine.mirsmt.exec import Amount
    key, cases = t
    w = mpool.world(key)
    be = w.backend
    R = mpool.TaskResult()
    preds = []
    for c in cases:
        th = T.TRe64() if be == "f64" else T.TRed()
        run = driver.Run(w, th, prune=False)
        st = run.state()
        try:
            pr = predict(run, w, th, st, c)
            if th.declined or "SYMBOLIC" in pr:
                pr = "SKIP non-finite / unrepresentable intermediate"
            preds.append(pr)
        except Exception as e:
            preds.append("SKIP " + str(e)[:80] if th.declined else "ERR %s" % e)
        R.absorb_exec(run.ex)
    R.extra_preds = preds
    return R


def fmt_amt(be, a):
    if a.exact is None:
        return "SYMBOLIC"
    if be == "f64":
        return "%016x" % rgen.f64_bits(a.exact)
    fr = F(a.exact)
    s = "-" if fr < 0 else ""
    fr = abs(fr)
    ip = fr.numerator // fr.denominator
    frac = fr - ip
    digits = ""
    while frac and len(digits) < 40:
        frac *= 10
        d = frac.numerator // frac.denominator
        digits += str(d)
        frac -= d
    return "%s%d%s" % (s, ip, ("." + digits) if digits else "")


def predict(run, w, th, st, c):
    be = w.backend
    op = c["op"]
    t, u, a = c["types"], c["units"], c["amounts"]
    am = [th.const(amount_value(be, x)) for x in a]

    def q(i, ti=None):
        return run.qty(st, t[ti if ti is not None else 0], am[i], u[i])

    def show_q(qt, o):
        if o.panic:
            return "PANIC"
        if qt == w.AMT:
            return "Q One %s" % fmt_amt(be, o.value)
        return "Q %s %s" % (run.unit_of(o.state, qt, o.value), fmt_amt(be, run.amount_of(o.state, qt, o.value)))

    if op == "convert":
        outs = run.call(st, "<%s as HasRefUnit>::convert" % t[0], [run.ref(st, q(0)), w.unit(t[0], u[1])])
        return show_q(t[0], outs[0])
    if op in ("add", "sub"):
        outs = run.call(st, "<%s as %s>::%s" % (t[0], op.capitalize(), op), [q(0), q(1)])
        return show_q(t[0], outs[0])
    if op == "ratio":
        outs = run.call(st, "<%s as Div>::div" % t[0], [q(0), q(1)])
        return "PANIC" if outs[0].panic else "A %s" % fmt_amt(be, outs[0].value)
    if op in ("eq", "lt"):
        if op == "eq":
            outs = run.call(st, "<%s as PartialEq>::eq" % t[0], [run.ref(st, q(0)), run.ref(st, q(1))])
            return "B %s" % ("true" if outs[0].value is True else "false")
        outs = run.call(st, "<%s as PartialOrd>::partial_cmp" % t[0], [run.ref(st, q(0)), run.ref(st, q(1))])
        v = outs[0].value
        return "B %s" % ("true" if (v.variant == "Some" and v.payload[0].variant == "Less") else "false")
    if op in ("mul", "div"):
        l = run.qty(st, t[0], am[0], u[0])
        r = run.qty(st, t[1], am[1], u[1])
        tr = "Mul" if op == "mul" else "Div"
        outs = run.call(st, "<%s as %s<%s>>::%s" % (t[0], tr, t[1], op), [l, r])
        return show_q(t[2], outs[0])
    if op == "fit":
        outs = run.call(st, "<%s as HasRefUnit>::_fit" % t[0], [am[0]])
        return show_q(t[0], outs[0])
    raise ValueError(op)


def tv_cases(desc, be, ops, full):
    """test vectors: amounts appearing in the repository's tests and one per ordered unit pair"""
    d = desc[be]
    rnd = random.Random(common.seed() + 17)
    ps = probes(be)
    cases = []
    types = [q for q in d["qty"] if d["has_ref"][q] and q not in ("f64", "Decimal")]
    paths = {q: ("quantities::%s::%s" % (d["module"][q], q)) for q in d["qty"] if q not in ("f64", "Decimal")}
    sel = types if full else types[:]
    for q in sel:
        us = d["units"][q]
        pairs = [(x, y) for x in us for y in us]
        if not full:
            rnd.shuffle(pairs)
            pairs = pairs[:12]
        for (x, y) in pairs:
            p1, p2 = rnd.choice(ps), rnd.choice(ps)
            for op in ops:
                if op in ("convert",):
                    cases.append({"backend": be, "op": op, "types": [q], "units": [x, y], "amounts": [p1], "paths": paths})
                elif op in ("add", "sub", "ratio", "eq", "lt"):
                    cases.append({"backend": be, "op": op, "types": [q], "units": [x, y], "amounts": [p1, p2], "paths": paths})
    if "mul" in ops or "div" in ops:
        for (a, op, b, r) in d["operators"]:
            ua, ub = d["units"][a], d["units"][b]
            pairs = [(x, y) for x in ua for y in ub]
            if not full:
                rnd.shuffle(pairs)
                pairs = pairs[:6]
            for (x, y) in pairs:
                p1, p2 = rnd.choice(ps), rnd.choice(ps)
                cases.append({"backend": be, "op": op, "types": [a, b, r], "units": [x, y], "amounts": [p1, p2], "paths": paths, "form": "vv"})
    zero = probes(be)[0]
    cases = [c for c in cases if not (c["op"] in ("ratio", "div") and c["amounts"][1] == zero)]
    if "fit" in ops:
        for q in types:
            for p in ps:
                cases.append({"backend": be, "op": "fit", "types": [q], "units": [], "amounts": [p], "paths": paths})
    return cases


def translator_validation(report, pool, desc, ops, full=False):
    """concrete differential: executor prediction vs. native output, bit for bit"""
    import time
    t0 = time.time()
    for be in [b for b in desc if b in ("f64", "dec")]:
        cases = tv_cases(desc, be, ops, full)
        if not cases:
            continue
        chunks = [cases[i::pool.jobs] for i in range(pool.jobs)]
        chunks = [c for c in chunks if c]
        results = pool.pool.map(_tv_call, [(be, c) for c in chunks])
        preds = {}
        for chunk, (pr, fns, stubs) in zip(chunks, results):
            for c, p in zip(chunk, pr):
                preds[id(c)] = p
            report.functions |= fns
            report.stubs |= stubs
        try:
            outs = rgen.ReplayCrate(be, name="tv-" + be).run(cases)
        except common.Inconclusive as e:
            report.inconcl(str(e))
            continue
        bad = 0
        skipped = 0
        for c, out in zip(cases, outs):
            p = preds[id(c)]
            o = "PANIC" if out.startswith("PANIC") else out
            if p.startswith("SKIP"):
                skipped += 1
                continue
            if be == "dec":
                p, o = _norm_dec(p), _norm_dec(o)
            if p != o:
                bad += 1
                if bad <= 5:
                    report.inconcl("translator validation mismatch (%s): case %s/%s %s %s: executor %s, native %s"
                                   % (be, c["op"], c["types"], c["units"], c["amounts"], p, out))
        report.traces_validated += len(cases) - bad - skipped
        report.notes.append("translator validation %s: %d concrete cases compared bit-for-bit with the native build, %d mismatches, %d skipped (non-finite / unrepresentable intermediates)" % (be, len(cases) - skipped, bad, skipped))
    report.time_engine("translator_validation", time.time() - t0)


def _norm_dec(s):
    """decimal text with trailing zeros removed (fpdec prints the stored number of fractional digits)"""
    import re
    def fix(m):
        t = m.group(0)
        if "." in t:
            t = t.rstrip("0").rstrip(".")
        return "0" if t in ("-0", "") else t
    return re.sub(r"-?\d+(?:\.\d+)?$", fix, s)


def _tv_call(args):
    r = tv_task(args)
    return r.extra_preds, r.fns, r.stubs


# ---------------------------------------------------------------------------
# merging outcomes into formulas

def bool_of(outs):
    """Or over non-panicking outcomes of (path condition and boolean value)"""
    from engine.mirsmt.exec import b_and, b_or
    return b_or(*[b_and(*(list(o.pc) + [o.value])) for o in outs if not o.panic])


def ord_conds(outs):
    """ordering name (or None) -> condition under which partial_cmp returned it"""
    from engine.mirsmt.exec import b_and, b_or
    d = {"Less": [], "Equal": [], "Greater": [], None: []}
    for o in outs:
        if o.panic:
            continue
        v = o.value
        k = None if v.variant == "None" else v.payload[0].variant
        d[k].append(b_and(*o.pc))
    return {k: b_or(*v) for k, v in d.items()}


def z(b):
    import z3
    return z3.BoolVal(b) if isinstance(b, bool) else b


def canary_verdict(R, sv, pair, res, base_hyp, sides):
    """a canary (deliberately wrong specification) must be refuted (sat).  If it is not, the obligation family is
    vacuous: legitimate only when the operation cannot be carried out at all for this unit pair in the decimal
    back-end (the side conditions - representable intermediates - are unsatisfiable while the path itself is feasible);
    then it is recorded as such, otherwise it is inconclusive."""
    if res != "unsat":
        return
    r1, _ = sv.check(base_hyp)
    r2, _ = sv.check(base_hyp + sides) if sides else (r1, None)
    if r1 == "sat" and r2 == "unsat":
        R.notes.append("%s: every execution overflows the decimal type for this unit pair (scale ratio not representable); tolerance obligations hold vacuously, panic-freedom is C18's subject" % pair)
        return
    R.inconclusive.append("%s: canary with a wrong specification was not refuted (vacuous obligations)" % pair)
