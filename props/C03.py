"""C03 Sum, difference and ratio of like quantities honour units -- Engine E2.

Per type with reference unit and ordered unit pair (ua, ub), symbolic a, b:
  a + b, a - b   carry ua; amount within tolerance of a +- b*sb/sa     (T_re64 / T_red, linear)
  a / b          within tolerance of (a*sa)/(b*sb), b != 0             (T_re64 / T_red, QF_NRA)
  ua == ub       results are the terms fadd(a,b), fsub(a,b), fdiv(a,b) (T_uf, both back-ends)
"""
from fractions import Fraction as F

from engine.mirsmt import frontend, pool as mpool
from engine.replay import gen as rgen
from spec import tolerances as tol
from props import e2common as E

OPS = (("add", "Add"), ("sub", "Sub"), ("ratio", "Div"))


def task(t):
    import z3
    from engine.mirsmt import driver, theories as T
    key, q, ua = t
    w = mpool.world(key)
    be = w.backend
    R = mpool.TaskResult()
    sv = driver.Solver(timeout_ms=E.query_timeout_ms())
    for ub in w.units(q):
        sa, sb = w.scale_fr(q, ua), w.scale_fr(q, ub)
        for op, trait in OPS:
            pair = "%s %s:%s %s %s" % (be, q, ua, op, ub)
            th = T.TRe64() if be == "f64" else T.TRed()
            run = driver.Run(w, th)
            a, b = th.var("a"), th.var("b")
            if op == "ratio":
                box = z3.And(E.box1(th, a, tol.BOX64_2), E.box_nz(th, b, tol.BOX64_2))
            else:
                box = z3.And(E.box1(th, a), E.box1(th, b))
            run.assume(box)
            s0 = run.state()
            qa, qb = run.qty(s0, q, a, ua), run.qty(s0, q, b, ub)
            outs = run.call(s0, "<%s as %s>::%s" % (q, trait, "div" if op == "ratio" else op), [qa, qb])
            R.absorb_exec(run.ex)
            D = b.term * T.Q(sb / sa)
            for o in outs:
                if o.panic:
                    R.oblig(pair + " no-panic", False)
                    R.candidates.append(E.cand("C03", "panic", be, w, op, [q], [ua, ub], None, pair, note=o.panic))
                    continue
                hyp = [box] + th.cons + o.pc + ([f for _, f in th.side] if be == "dec" else [])
                if op == "ratio":
                    r = o.value
                    Tt = (a.term * T.Q(sa)) / (b.term * T.Q(sb))
                    if be == "f64":
                        goal = T.zabs(r.term - Tt) <= T.Q(tol.K64 * tol.U) * T.zabs(Tt)
                    else:
                        rho_ok = T.zabs(D) >= T.Q(2 * tol.EPS) * (1 + T.zabs(b.term))
                        hyp = hyp + [rho_ok]
                        # relative precision of the divisor in the dividend's unit (conversion of b) or of both operands
                        # in reference units (an implementation may equally well form (a*sa)/(b*sb)): eps/|a sa| + eps/|b sb|
                        A_, B_ = a.term * T.Q(sa), b.term * T.Q(sb)
                        hyp = hyp + [T.zabs(B_) >= T.Q(2 * tol.EPS)]
                        # |r - T| <= K eps (1 + |T| ((1+|b|)/|D| + 1/|A| + 1/|B|)), multiplied by B^2 (T B = A, D = B/sa): no division left
                        goal = T.zabs(r.term * B_ - A_) * T.zabs(B_) <= T.Q(tol.KDEC * tol.EPS) * (B_ * B_ + T.zabs(A_) * T.Q(sa) * (1 + T.zabs(b.term)) + T.zabs(B_) + T.zabs(A_))
                else:
                    unit = run.unit_of(o.state, q, o.value)
                    R.oblig(pair + " unit", unit == ua, False)
                    if unit != ua:
                        R.candidates.append(E.cand("C03", "unit", be, w, op, [q], [ua, ub], E.path_amounts(sv, hyp, [a, b], be), pair, note="result unit %s" % unit))
                    r = run.amount_of(o.state, q, o.value)
                    Tt = a.term + D if op == "add" else a.term - D
                    if be == "f64":
                        goal = T.zabs(r.term - Tt) <= T.Q(tol.K64 * tol.U) * (T.zabs(a.term) + T.zabs(D))
                    else:
                        goal = T.zabs(r.term - Tt) <= T.Q(tol.KDEC * tol.EPS) * (1 + T.zabs(b.term))
                res, model = sv.check(hyp + [z3.Not(goal)], want_model=True, keep_sample=(op == "ratio"))
                R.oblig(pair + " value", res == "unsat", True,
                        {"obligation": pair + " value", "theory": th.name, "verdict": res})
                if res == "sat":
                    R.candidates.append(E.cand("C03", "value", be, w, op, [q], [ua, ub], E.model_amounts(model, [a, b], be), pair))
                elif res != "unsat":
                    R.inconclusive.append("%s: solver answered %s" % (pair, res))
                if be == "f64":
                    for desc_, f in th.side:
                        res, _ = sv.check([box] + th.cons + o.pc + [z3.Not(f)])
                        R.oblig(pair + " range:" + desc_[:24], res == "unsat", True)
                        if res != "unsat":
                            R.inconclusive.append("%s: T_re64 range side obligation not discharged (%s): %s" % (pair, res, desc_))
                if ua == w.units(q)[0] and ub == w.units(q)[-1]:
                    wrong = z3.Not(T.zabs(r.term - (Tt * 2 + 1)) <= T.Q(tol.K64 * tol.U) * (T.zabs(Tt) + 1))
                    res, _ = sv.check(hyp + [wrong])
                    R.vacuity.append("%s canary (wrong spec 2T+1): %s" % (pair, res))
                    E.canary_verdict(R, sv, pair, res, [box] + th.cons + o.pc, [f for _, f in th.side] if be == "dec" else [])
            # exactness when the units are equal
            if ua == ub:
                th = T.TUf(be)
                run = driver.Run(w, th, prune=False)
                a, b = th.var("a"), th.var("b")
                s0 = run.state()
                qa, qb = run.qty(s0, q, a, ua), run.qty(s0, q, b, ub)
                outs = run.call(s0, "<%s as %s>::%s" % (q, trait, "div" if op == "ratio" else op), [qa, qb])
                ok = len(outs) == 1 and not outs[0].panic
                if ok:
                    r = outs[0].value if op == "ratio" else run.amount_of(outs[0].state, q, outs[0].value)
                    want = th.bin(trait, a, b)
                    res, _ = sv.check(th.cons + outs[0].pc + [r.term != want.term])
                    ok = res == "unsat"
                R.oblig(pair + " exact", ok, True, {"obligation": pair + " exact", "theory": "T_uf", "goal": "result is f%s(a, b)" % trait.lower()})
                if not ok:
                    R.candidates.append(E.cand("C03", "exact", be, w, op, [q], [ua, ub], None, pair))
    R.absorb_solver(sv)
    return R


def oracle(c, out, scales):
    import math
    be, op = c["backend"], c["op"]
    q = c["types"][0]
    ua, ub = c["units"]
    a, b = E.amount_value(be, c["amounts"][0]), E.amount_value(be, c["amounts"][1])
    if be == "f64" and not (math.isfinite(a) and math.isfinite(b)):
        return None, "non-finite input"
    if op == "ratio" and b == 0:
        return None, "zero divisor"
    sa, sb = F(scales[q][ua]), F(scales[q][ub])
    unit, r = rgen.parse_q(be, out)
    if unit == "PANIC":
        return (be == "f64"), "panicked: %s" % r
    if be == "f64" and not math.isfinite(r):
        return None, "non-finite result"
    D = F(b) * sb / sa
    if op == "ratio":
        Tt = (F(a) * sa) / (F(b) * sb)
        if ua == ub:
            exact = (a / b) if be == "f64" else None
            if be == "f64" and r != exact:
                return True, "same-unit ratio %r / %r = %r, amount type gives %r" % (a, b, r, exact)
        if be == "f64":
            ok = abs(F(r) - Tt) <= tol.K64 * tol.U * abs(Tt)
        else:
            if abs(D) < 2 * tol.EPS * (1 + abs(F(b))):
                return None, "divisor below resolution"
            A_, B_ = F(a) * sa, F(b) * sb
            if abs(B_) < 2 * tol.EPS:
                return None, "divisor below resolution in reference units"
            ok = abs(F(r) * B_ - A_) * abs(B_) <= tol.KDEC * tol.EPS * (B_ * B_ + abs(A_) * sa * (1 + abs(F(b))) + abs(B_) + abs(A_))
        return (not ok), "(%s %s) / (%s %s) = %s, exact %.17g" % (a, ua, b, ub, r, float(Tt))
    if unit != ua:
        return True, "result unit %s, left operand unit %s" % (unit, ua)
    Tt = F(a) + D if op == "add" else F(a) - D
    if ua == ub and be == "f64":
        exact = a + b if op == "add" else a - b
        if r != exact:
            return True, "same-unit %s: %r, amount type gives %r" % (op, r, exact)
    if ua == ub and be == "dec" and F(r) != Tt:
        return True, "same-unit %s: %s, exact %s" % (op, r, Tt)
    if be == "f64":
        ok = abs(F(r) - Tt) <= tol.K64 * tol.U * (abs(F(a)) + abs(D))
    else:
        ok = abs(F(r) - Tt) <= tol.KDEC * tol.EPS * (1 + abs(F(b)))
    return (not ok), "(%s %s) %s (%s %s) = %s %s, exact %.17g" % (a, ua, op, b, ub, r, unit, float(Tt))


def kani_units(report, tier):
    """E1: a + b and a - b carry the left operand's unit for every f64 bit pattern and every unit pair"""
    from engine.kani.runner import KaniCrate, Harness, confirm_failures
    from spec import catalogue
    from props import kanigen as G, synthdefs
    qs = [q for q in catalogue.CATALOGUE if q.ref is not None]
    pre = G.PRELUDE + synthdefs.SYNTH_RS + "".join(G.tables(q, "f64") for q in qs) + G.tables(synthdefs.DOSE, "f64")
    kc = KaniCrate("c03", "f64", extra_src=pre)
    for q in qs + [synthdefs.DOSE]:
        T_ = q.name.upper()
        kc.add(Harness("units_" + q.name.lower(), """
        let a: f64 = kani::any();
        let b: f64 = kani::any();
        let i: usize = kani::any();
        let j: usize = kani::any();
        kani::assume(i < %(T)s_N && j < %(T)s_N);
        let x = <%(Q)s as Quantity>::new(a, %(T)s_IDENTS[i]);
        let y = <%(Q)s as Quantity>::new(b, %(T)s_IDENTS[j]);
        assert!((x + y).unit() == %(T)s_IDENTS[i], "a + b is expressed in the left operand's unit");
        assert!((x - y).unit() == %(T)s_IDENTS[i], "a - b is expressed in the left operand's unit");
        kani::cover!(a == 0.0 && i != j && b.is_nan(), "zero left operand, NaN right operand, different units");
        """ % {"T": T_, "Q": G.qpath(q) + q.name}, unwind=len(q.units) + 2, key="f64 %s sum/difference carry the left unit" % q.name,
                       sample={"harness": "units_" + q.name.lower(), "symbolic": "a, b: any f64 bit pattern; unit indices i, j", "asserts": "(a+b).unit() == (a-b).unit() == left unit"}))
    kc.add(Harness("canary_must_fail", "        let a: f64 = kani::any();\n        let x = a * quantities::length::INCH;\n        let y = a * quantities::length::FOOT;\n        assert!((x + y).unit() == quantities::length::FOOT);\n",
                   expect="fail", key="canary", symbolic=False))
    report.bounds["kani_units"] = "every f64 bit pattern for both amounts, every ordered unit pair (symbolic indices) of 13 catalogue types and a synthetic type"
    kc.run(report, timeout=(480 if tier == "quick" else 3000))
    confirm_failures(report)


def run(report, tier):
    E.setup_report(report, "C03")
    backends = ["f64", "dec"]
    import concurrent.futures as cf
    from engine import common
    keys = E.dump_worlds(backends, fixture=True)
    from props import synthdefs as _sd
    rgen.EXTRA_SRC = _sd.SYNTH_RS
    pool = mpool.Pool(jobs=max(2, common.ncpu() - 6))
    ex_ = cf.ThreadPoolExecutor(max_workers=1)
    fut = ex_.submit(kani_units, report, tier)
    try:
        desc = E.describe_worlds(pool, keys)
        tasks = E.ref_tasks(keys, desc)
        E.shuffle(tasks)
        report.bounds.update(E.bounds_box1())
        report.bounds["ratio_box"] = "f64: 2^-400 <= |a|,|b| <= 2^400 (a may be 0); decimal: b != 0 and |b*sb/sa| >= 2e-18 (1+|b|)"
        cands = pool.run(report, task, tasks)
        pool.cross_check(report)
        E.native_confirm(report, "C03", cands, desc, oracle, probes=E.probe_amounts_2)
        E.translator_validation(report, pool, desc, ops=("add", "sub", "ratio"), full=(tier == "thorough"))
        fut.result()
    finally:
        pool.close()
        ex_.shutdown(wait=False)
