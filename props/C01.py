"""C01 Unit conversion preserves the physical value -- Engine E2 (MIR -> SMT).

Per quantity type with a reference unit and per ordered unit pair (from, to),
with a symbolic amount a:
  unit      convert(to) carries exactly `to`                      (concrete)
  value     |r - a*sf/st| within spec/tolerances                  (T_re64 / T_red)
  range     every f64 intermediate is 0 or normal (side obligation, proved)
  same      equiv_amount(to) is the very term convert(to) stores  (T_uf, both back-ends)
  identity  from == to  =>  result term is the input amount        (T_uf)
"""
from fractions import Fraction as F

from engine import common
from engine.mirsmt import frontend, pool as mpool
from engine.replay import gen as rgen
from spec import tolerances as tol
from props import e2common as E


def task(t):
    import z3
    from engine.mirsmt import driver, theories as T
    key, q, fu = t
    w = mpool.world(key)
    be = w.backend
    R = mpool.TaskResult()
    sv = driver.Solver(timeout_ms=E.query_timeout_ms())
    for tu in w.units(q):
        pair = "%s %s:%s->%s" % (be, q, fu, tu)
        sf, st_ = w.scale_fr(q, fu), w.scale_fr(q, tu)
        # ---------------- value obligations under the rounding theory
        th = T.TRe64() if be == "f64" else T.TRed()
        run = driver.Run(w, th)
        a = th.var("a")
        box = E.box1(th, a)
        run.assume(box)
        s0 = run.state()
        v = run.qty(s0, q, a, fu)
        outs = run.call(s0, "<%s as HasRefUnit>::convert" % q, [run.ref(s0, v), w.unit(q, tu)])
        R.absorb_exec(run.ex)
        for o in outs:
            if o.panic:
                R.oblig(pair + " no-panic", False)
                R.candidates.append(E.cand("C01", "panic", be, w, "convert", [q], [fu, tu], None, pair, note=o.panic))
                continue
            unit = run.unit_of(o.state, q, o.value)
            R.oblig(pair + " unit", unit == tu, False)
            if unit != tu:
                R.candidates.append(E.cand("C01", "unit", be, w, "convert", [q], [fu, tu], E.path_amounts(sv, [box] + th.cons + o.pc, [a], be), pair, note="result unit %s" % unit))
            r = run.amount_of(o.state, q, o.value)
            Tt = a.term * T.Q(sf / st_)
            if be == "f64":
                goal = T.zabs(r.term - Tt) <= T.Q(tol.K64 * tol.U) * T.zabs(Tt)
                hyp = [box] + th.cons + o.pc
            else:
                # one rounding of the ratio (times |a|) and one of the product; an implementation that multiplies and divides
                # by the two scales separately has one rounding amplified by 1/st or by sf instead -- all "rounding of the amount type"
                goal = T.zabs(r.term - Tt) <= T.Q(tol.KDEC * tol.EPS * (1 + 1 / st_ + sf)) * (1 + T.zabs(a.term))
                hyp = [box] + th.cons + o.pc + [f for _, f in th.side]      # decimal: claim is about non-overflowing executions (C18 owns panics)
            res, model = sv.check(hyp + [z3.Not(goal)], want_model=True, keep_sample=True)
            R.oblig(pair + " value", res == "unsat", True,
                    {"obligation": pair + " value", "theory": th.name, "goal": "|convert(a).amount - a*%s| <= tol" % (sf / st_), "verdict": res})
            if res == "sat":
                R.candidates.append(E.cand("C01", "value", be, w, "convert", [q], [fu, tu], E.model_amounts(model, [a], be), pair))
            elif res != "unsat":
                R.inconclusive.append("%s: solver answered %s" % (pair, res))
            if be == "f64":
                for desc, f in th.side:
                    res, model = sv.check([box] + th.cons + o.pc + [z3.Not(f)])
                    R.oblig(pair + " range:" + desc[:24], res == "unsat", True)
                    if res != "unsat":
                        R.inconclusive.append("%s: T_re64 range side obligation not discharged (%s): %s" % (pair, res, desc))
        # vacuity: a non-zero amount reaches the end
        if fu == w.units(q)[0] and tu == w.units(q)[-1]:
            res, _ = sv.check([box, a.term != 0] + th.cons + [c for o in outs if not o.panic for c in o.pc])
            R.vacuity.append("%s reachable with a != 0: %s" % (pair, res))
            if res != "sat":
                R.inconclusive.append("%s: vacuous (assumptions unsatisfiable)" % pair)
            # canary: doubled target scale must be refuted
            for o in outs:
                if not o.panic:
                    r = run.amount_of(o.state, q, o.value)
                    bad = a.term * T.Q(2 * sf / st_) + 1
                    g = T.zabs(r.term - bad) <= T.Q(tol.K64 * tol.U) * T.zabs(bad) if be == "f64" else T.zabs(r.term - bad) <= T.Q(tol.KDEC * tol.EPS * (1 + 1 / st_ + sf)) * (1 + T.zabs(a.term))
                    res, _ = sv.check([box, a.term != 0] + th.cons + o.pc + [f for _, f in th.side] + [z3.Not(g)])
                    R.vacuity.append("%s canary (wrong spec 2T+1): %s" % (pair, res))
                    E.canary_verdict(R, sv, pair, res, [box, a.term != 0] + th.cons + o.pc, [f for _, f in th.side])
        # ---------------- exactness obligations (T_uf)
        th = T.TUf(be)
        run = driver.Run(w, th)
        a = th.var("a")
        s0 = run.state()
        v = run.qty(s0, q, a, fu)
        o1 = run.call(s0, "<%s as HasRefUnit>::convert" % q, [run.ref(s0, v), w.unit(q, tu)])
        s1 = run.state()
        v1 = run.qty(s1, q, a, fu)
        o2 = run.call(s1, "<%s as HasRefUnit>::equiv_amount" % q, [run.ref(s1, v1), w.unit(q, tu)])
        R.absorb_exec(run.ex)
        if len(o1) == 1 and len(o2) == 1 and not o1[0].panic and not o2[0].panic:
            r1 = run.amount_of(o1[0].state, q, o1[0].value)
            r2 = o2[0].value
            res, _ = sv.check(th.cons + o1[0].pc + o2[0].pc + [r1.term != r2.term])
            R.oblig(pair + " equiv==convert", res == "unsat", True)
            if res == "sat":
                R.candidates.append(E.cand("C01", "equiv", be, w, "equiv_amount", [q], [fu, tu], None, pair))
            if fu == tu:
                res, _ = sv.check(th.cons + o1[0].pc + [r1.term != a.term])
                R.oblig(pair + " identity", res == "unsat", True,
                        {"obligation": pair + " identity", "theory": "T_uf", "goal": "convert(a*u, u).amount is the term a", "verdict": res})
                if res == "sat":
                    R.candidates.append(E.cand("C01", "identity", be, w, "convert", [q], [fu, tu], None, pair))
        else:
            R.oblig(pair + " equiv==convert", False, True)
            R.inconclusive.append("%s: unexpected path structure under T_uf" % pair)
    R.absorb_solver(sv)
    return R


def oracle(c, out, scales):
    """evaluate the property on a native result; -> (violated?, text)"""
    be = c["backend"]
    q = c["types"][0]
    fu, tu = c["units"]
    sf, st_ = F(scales[q][fu]), F(scales[q][tu])
    unit, r = rgen.parse_q(be, out)
    if unit == "PANIC":
        return E.is_finite_in_box(c), "panicked: %s" % r
    if c["op"] == "equiv_amount":
        return None, ""
    a = E.amount_value(be, c["amounts"][0])
    if unit != tu:
        return True, "result unit %s, requested %s" % (unit, tu)
    if fu == tu:
        same = (c["amounts"][0] == (rgen.f64_bits(r) if be == "f64" else None)) or F(r) == F(a)
        if not same:
            return True, "same-unit conversion changed the amount: %r -> %r" % (a, r)
    if be == "f64":
        import math
        if not math.isfinite(r) or not math.isfinite(a):
            return None, "non-finite"
        Tt = F(a) * sf / st_
        err = abs(F(r) - Tt)
        ok = err <= tol.K64 * tol.U * abs(Tt)
    else:
        Tt = F(a) * sf / st_
        err = abs(F(r) - Tt)
        ok = err <= tol.KDEC * tol.EPS * (1 + 1 / st_ + sf) * (1 + abs(F(a)))
    return (not ok), "convert(%s %s -> %s) = %s, exact %s, |err| = %.3e" % (a, fu, tu, r, float(Tt), float(err))


def kani_identity(report, tier):
    """E1: converting to the unit a value already has returns the bit-identical amount, for every f64 bit
    pattern (NaN, inf, -0 included) and every unit (symbolic index); equiv_amount returns the same bits."""
    from engine.kani.runner import KaniCrate, Harness, confirm_failures
    from spec import catalogue
    from props import kanigen as G, synthdefs
    qs = [q for q in catalogue.CATALOGUE if q.ref is not None]
    pre = G.PRELUDE + synthdefs.SYNTH_RS + "".join(G.tables(q, "f64") for q in qs) + G.tables(synthdefs.DOSE, "f64")
    for q in catalogue.ASTRO:
        pre += G.tables(q, "f64").replace("const %s_" % q.name.upper(), "const A%s_" % q.name.upper())
    kc = KaniCrate("c01", "f64", astro=True, extra_src=pre)
    for q, pfx in [(q, "") for q in qs + [synthdefs.DOSE]] + [(q, "A") for q in catalogue.ASTRO]:
        T_ = pfx + q.name.upper()
        kc.add(Harness("identity_%s%s" % (pfx.lower(), q.name.lower()), """
        let a: f64 = kani::any();
        let i: usize = kani::any();
        kani::assume(i < %(T)s_N);
        let u = %(T)s_IDENTS[i];
        let x = <%(Q)s as Quantity>::new(a, u);
        let y = x.convert(u);
        assert!(y.unit() == u, "conversion carries the requested unit");
        assert!(y.amount().to_bits() == a.to_bits(), "converting to the unit a value already has returns the identical amount");
        assert!(x.equiv_amount(u).to_bits() == a.to_bits(), "the equivalent-amount query returns the same number");
        let j: usize = kani::any();
        kani::assume(j < %(T)s_N);
        assert!(x.convert(%(T)s_IDENTS[j]).unit() == %(T)s_IDENTS[j], "conversion carries exactly the requested unit");
        kani::cover!(a.is_nan() && i == %(T)s_N - 1, "NaN amount, last unit");
        """ % {"T": T_, "Q": G.qpath(q) + q.name}, unwind=len(q.units) + 2, key="f64 %s%s same-unit conversion is the identity" % (pfx, q.name),
                       sample={"harness": "identity_" + q.name.lower(), "symbolic": "a: any f64 bit pattern; unit indices i, j",
                               "asserts": "convert(u).amount bits == a bits, equiv_amount(u) bits == a bits, convert(v).unit() == v"}))
    kc.add(Harness("canary_must_fail", "        let a: f64 = kani::any();\n        let x = a * quantities::length::INCH;\n        assert!(x.convert(quantities::length::FOOT).amount().to_bits() == a.to_bits());\n",
                   expect="fail", key="canary", symbolic=False))
    report.bounds["kani_identity"] = "every f64 bit pattern, every unit (symbolic index) of 13 catalogue types, the 4 astronomical types and a synthetic type"
    kc.run(report, timeout=(480 if tier == "quick" else 3000))
    confirm_failures(report)


def run(report, tier):
    E.setup_report(report, "C01")
    backends = ["f64", "dec"]
    import concurrent.futures as cf
    keys = E.dump_worlds(backends, fixture=True)
    from props import synthdefs as _sd
    rgen.EXTRA_SRC = _sd.SYNTH_RS
    pool = mpool.Pool(jobs=max(2, common.ncpu() - 6))
    ex_ = cf.ThreadPoolExecutor(max_workers=1)
    fut = ex_.submit(kani_identity, report, tier)
    try:
        desc = E.describe_worlds(pool, keys)
        tasks = E.ref_tasks(keys, desc)
        E.shuffle(tasks)
        report.bounds.update(E.bounds_box1())
        report.bounds["types"] = {label: [q for q in desc[label]["qty"] if desc[label]["has_ref"][q]] for label in desc}
        cands = pool.run(report, task, tasks)
        pool.cross_check(report)
        E.native_confirm(report, "C01", cands, desc, oracle, probes=E.probe_amounts_1)
        E.translator_validation(report, pool, desc, ops=("convert",), full=(tier == "thorough"))
        fut.result()
    finally:
        pool.close()
        ex_.shutdown(wait=False)
