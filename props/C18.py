"""C18 Operations are total on in-range inputs -- E1 (f64) + E2 (decimal).

f64, E1 (Kani): for every operation of C01-C05, C08, C13, C14 on quantities with a reference
unit, symbolic units and UNCONSTRAINED f64 amounts (every bit pattern): no panic (unwrap in
_fit, unreachable, bounds, arithmetic).  Formatting is outside (C15 not applicable).
decimal, E2 (T_red): at every Decimal mul/div/add/sub executed on any path, the obligation
"divisor != 0 and |exact result| < 1e20" under the property's own precondition: every natural
magnitude (operands in their own, the reference and the smallest unit, result in reference
and smallest unit, scale product/ratio, divisor in the dividend's unit) is 0 or in [1e-15, 1e17].
A SAT answer is turned into 18-digit decimals and replayed natively; a reproduced panic is a
violation (or the recorded known finding for its call-site role).
"""
from fractions import Fraction as F

from engine import common
from engine.mirsmt import frontend, pool as mpool
from engine.kani.runner import KaniCrate, Harness, confirm_failures
from engine.replay import gen as rgen
from spec import catalogue
from props import e2common as E
from props import kanigen as G
from props import derived as D

LO, HI = F(1, 10 ** 15), F(10 ** 17)
WITNESS_LIMIT = F(2 * 10 ** 20)


def P(T, x, allow_zero=True):
    import z3
    ax = T.zabs(x)
    rng = z3.And(ax >= T.Q(LO), ax <= T.Q(HI))
    return z3.Or(x == 0, rng) if allow_zero else rng


def task(t):
    import z3
    from engine.mirsmt import driver, theories as T
    key, kind, spec, ua = t
    w = mpool.world(key)
    be = w.backend
    R = mpool.TaskResult()
    sv = driver.Solver(timeout_ms=E.query_timeout_ms())

    def smin(q):
        return min(w.scale_fr(q, u) for u in w.units(q)) if q != w.AMT else F(1)

    def sc(q, u):
        return w.scale_fr(q, u) if q != w.AMT else F(1)

    def mags(q, x, u, allow_zero=True):
        s = sc(q, u)
        return [P(T, x, allow_zero), P(T, x * T.Q(s), allow_zero), P(T, x * T.Q(s / smin(q)), allow_zero)]

    def discharge(pair, th, pre, outs, role_of, case_of, vars_):
        for o in outs:
            if o.panic:
                # a panic path found by the executor itself (unwrap / explicit): must be infeasible under the precondition
                res, model = sv.check(pre + th.cons + o.pc, want_model=True)
                R.oblig(pair + " path:" + str(o.panic)[:30], res == "unsat", True)
                if res == "sat":
                    R.candidates.append(case_of(model, "panic-path:" + str(o.panic)[:40]))
        for (desc, f), pc, knd, ex in zip(th.side, th.side_pc, th.side_kind, th.side_exact):
            hyp = pre + th.cons + list(pc)
            res, model = sv.check(hyp + [z3.Not(f)], want_model=True, keep_sample=True)
            role = role_of(knd, desc)
            R.oblig("%s %s %s" % (pair, role, desc[:30]), res == "unsat", True,
                    {"obligation": "%s: %s" % (pair, desc), "theory": "T_red", "verdict": res, "precondition": "natural magnitudes 0 or in [1e-15, 1e17]"})
            if res == "sat":
                # prefer a witness that is clearly beyond fpdec's limit (~1.7e20) so that it replays
                if ex is not None and desc.startswith("decimal division: divisor"):
                    # a divisor that is itself a rounded result: ask for one whose unrounded value clearly rounds to zero
                    res2, model2 = sv.check(hyp + [z3.Not(f), T.zabs(ex) <= T.Q(F(1, 4 * 10 ** 18))], want_model=True)
                    if res2 == "sat":
                        model = model2
                elif ex is not None:
                    res2, model2 = sv.check(hyp + [T.zabs(ex) >= T.Q(WITNESS_LIMIT)], want_model=True)
                    if res2 == "sat":
                        model = model2
                R.candidates.append(case_of(model, role))
            elif res != "unsat":
                R.inconclusive.append("%s: solver answered %s on %s" % (pair, res, desc))

    if kind == "like":
        q = spec
        for ub in w.units(q):
            for op, callee, nargs in (("convert", None, 1), ("cmp", None, 2), ("add", "Add", 2), ("sub", "Sub", 2), ("ratio", "Div", 2)):
                pair = "dec %s:%s %s %s" % (q, ua, op, ub)
                th = T.TRed()
                run = driver.Run(w, th)
                a, b = th.var("a"), th.var("b")
                pre = mags(q, a.term, ua)
                if nargs == 2:
                    pre += mags(q, b.term, ub, allow_zero=(op != "ratio"))
                sa, sb = sc(q, ua), sc(q, ub)
                if op == "convert":
                    pre += [P(T, a.term * T.Q(sa / sb))]
                if op in ("add", "sub"):
                    res_m = a.term * T.Q(sa) + (b.term * T.Q(sb) if op == "add" else -b.term * T.Q(sb))
                    pre += [P(T, res_m), P(T, res_m / T.Q(smin(q))), P(T, res_m / T.Q(sa)), P(T, b.term * T.Q(sb / sa))]
                if op == "ratio":
                    pre += [P(T, b.term * T.Q(sb / sa), False), P(T, (a.term * T.Q(sa)) / (b.term * T.Q(sb)))]
                run.assume(*pre)
                st = run.state()
                qa = run.qty(st, q, a, ua)
                qb = run.qty(st, q, b, ub)
                if op == "convert":
                    outs = run.call(st, "<%s as HasRefUnit>::convert" % q, [run.ref(st, qa), w.unit(q, ub)])
                elif op == "cmp":
                    outs = run.call(st, "<%s as PartialOrd>::partial_cmp" % q, [run.ref(st, qa), run.ref(st, qb)])
                    st2 = run.state()
                    qa2, qb2 = run.qty(st2, q, a, ua), run.qty(st2, q, b, ub)
                    outs += run.call(st2, "<%s as PartialEq>::eq" % q, [run.ref(st2, qa2), run.ref(st2, qb2)])
                else:
                    outs = run.call(st, "<%s as %s>::%s" % (q, callee, "div" if op == "ratio" else op), [qa, qb])
                R.absorb_exec(run.ex)
                rop = {"convert": "convert", "cmp": "cmp_all", "add": "add", "sub": "sub", "ratio": "ratio"}[op]

                def case_of(model, role, rop=rop, nargs=nargs, a=a, b=b, ub=ub, pair=pair):
                    am = E.model_amounts(model, [a, b][:nargs], be)
                    return E.cand("C18", "panic", be, w, rop, [q], [ua, ub], am, pair, role="dec:%s:%s" % (rop, role))
                discharge(pair, th, pre, outs, lambda knd, desc: "%s-%s%s%s" % (knd[0].lower(), knd[1], "x" if knd[0] == "Mul" else "/", knd[2]), case_of, [a, b])
    elif kind == "derived":
        inst = tuple(spec)
        A_, op, B_, Rt = inst
        for ub in w.units(B_):
            pair = "dec %s[%s] %s %s[%s]" % (A_, ua, op, B_, ub)
            th = T.TRed()
            run = driver.Run(w, th)
            a, b = th.var("a"), th.var("b")
            sa, sb = sc(A_, ua), sc(B_, ub)
            ss = sa * sb if op == "mul" else sa / sb
            if not (LO <= ss <= HI):
                continue        # the precondition excludes unit pairs whose scale product/ratio is out of range
            pre = mags(A_, a.term, ua) + mags(B_, b.term, ub, allow_zero=(op != "div"))
            M = (a.term * b.term if op == "mul" else a.term / b.term) * T.Q(ss)
            pre += [P(T, M), P(T, M / T.Q(smin(Rt)))]
            run.assume(*pre)
            outs = D.run_op(run, run.state(), inst, ua, ub, a, b)
            R.absorb_exec(run.ex)

            def case_of(model, role, a=a, b=b, ub=ub, pair=pair):
                am = E.model_amounts(model, [a, b], be)
                return E.cand("C18", "panic", be, w, op, [A_, B_, Rt], [ua, ub], am, pair, role=role, form="vv")

            def role_of(knd, desc):
                if knd[1] == "sym" and knd[2] == "sym" and knd[0] in ("Mul", "Div"):
                    return "dec:derived:amount-op-before-scale"
                return "dec:derived:%s-%s-%s" % knd
            discharge(pair, th, pre, outs, role_of, case_of, [a, b])
    elif kind == "rate":
        from props import C13
        TQ, PQ = spec
        tu = ua
        for pu in w.units(PQ):
            for form, OQ in (("rate*q", PQ), ("q/rate", TQ)):
                for vu in w.units(OQ):
                    pair = "dec Rate<%s,%s>[%s per %s] %s [%s]" % (TQ, PQ, tu, pu, form, vu)
                    th = T.TRed()
                    run = driver.Run(w, th)
                    ta, pm, v = th.var("ta"), th.var("pm"), th.var("v")
                    pre = mags(TQ, ta.term, tu, False) + mags(PQ, pm.term, pu, False) + mags(OQ, v.term, vu)
                    if form == "rate*q":
                        c = sc(PQ, pu) / sc(PQ, vu)
                        x1 = v.term / T.Q(c)                      # the operand expressed in the per unit
                        res_amt = ta.term * x1 / pm.term
                        RT, ru = TQ, tu
                    else:
                        c = sc(TQ, tu) / sc(TQ, vu)
                        x1 = v.term / T.Q(c)
                        res_amt = pm.term * x1 / ta.term
                        RT, ru = PQ, pu
                    if not (LO <= c <= HI):
                        continue
                    pre += [P(T, x1), P(T, x1 / (pm.term if form == "rate*q" else ta.term))]
                    pre += mags(RT, res_amt, ru)
                    run.assume(*pre)
                    st = run.state()
                    rate = C13.mk_rate(run, st, TQ, PQ, ta, tu, pm, pu)
                    qv = run.qty(st, OQ, v, vu)
                    if form == "rate*q":
                        outs = run.call(st, "<rate::Rate<%s, %s> as Mul<%s>>::mul" % (TQ, PQ, PQ), [rate, qv])
                    else:
                        outs = run.call(st, "<%s as Div<rate::Rate<%s, %s>>>::div" % (TQ, TQ, PQ), [qv, rate])
                    R.absorb_exec(run.ex)
                    rop = "rate_mul" if form == "rate*q" else "qty_div_rate"

                    def case_of(model, role, rop=rop, ta=ta, pm=pm, v=v, pu=pu, vu=vu, pair=pair):
                        am = E.model_amounts(model, [ta, pm, v], be)
                        return E.cand("C18", "panic", be, w, rop, [TQ, PQ], [tu, pu, vu], am, pair, role="dec:%s:%s" % (rop, role))
                    discharge(pair, th, pre, outs, lambda knd, desc: "%s-%s-%s" % knd, case_of, [ta, pm, v])
    R.absorb_solver(sv)
    return R


def oracle(c, out, scales):
    be = c["backend"]
    if c["op"] in ("rate_mul", "qty_div_rate"):
        if out.startswith("PANIC"):
            return True, "rate operation panics natively (%s): %s %s %s" % (out[6:60], c["op"], c["units"], c["amounts"])
        return False, out
    if out.startswith("PANIC"):
        # the amounts must really satisfy the precondition (they were rounded to 18 digits): re-check exactly
        ok, why = precondition_holds(c, scales)
        if not ok:
            return None, "panicked, but the rounded amounts violate the precondition (%s)" % why
        return True, "panics natively (%s) although every natural magnitude is in range: %s %s %s" % (out[6:60], c["op"], c["units"], c["amounts"])
    return False, out


def precondition_holds(c, scales):
    def inP(x, zero=True):
        x = abs(F(x))
        return (zero and x == 0) or (LO <= x <= HI)
    op = c["op"]
    ts, us = c["types"], c["units"]
    am = [F(x) for x in c["amounts"]]
    def sc(q, u):
        return F(scales[q][u]) if q in scales else F(1)
    def smin(q):
        return min(F(v) for v in scales[q].values()) if q in scales else F(1)
    if op in ("mul", "div"):
        A_, B_, Rt = ts
        a, b = am
        sa, sb = sc(A_, us[0]), sc(B_, us[1])
        ss = sa * sb if op == "mul" else sa / sb
        if op == "div" and b == 0:
            return False, "zero divisor"
        M = (a * b if op == "mul" else a / b) * ss
        checks = [a, a * sa, a * sa / smin(A_), b, b * sb, b * sb / smin(B_), M, M / smin(Rt)]
        ok = all(inP(x) for x in checks) and LO <= ss <= HI
        return ok, "magnitudes %s" % [float(x) for x in checks]
    q = ts[0]
    sa = sc(q, us[0])
    sb = sc(q, us[1]) if len(us) > 1 else sa
    a = am[0]
    checks = [a, a * sa, a * sa / smin(q)]
    if op == "convert":
        checks.append(a * sa / sb)
    if len(am) > 1:
        b = am[1]
        checks += [b, b * sb, b * sb / smin(q)]
        if op in ("add", "sub"):
            m = a * sa + (b * sb if op == "add" else -b * sb)
            checks += [m, m / smin(q), m / sa, b * sb / sa]
        if op == "ratio":
            if b == 0:
                return False, "zero divisor"
            checks += [b * sb / sa, (a * sa) / (b * sb)]
            if not inP(b * sb / sa, False):
                return False, "divisor"
    return all(inP(x) for x in checks), "magnitudes %s" % [float(x) for x in checks]


def variants(c, d):
    """native replay amounts: the model rounded to 18 digits, and with a forced 18th fractional digit"""
    out = []
    if c.get("amounts"):
        base = [F(x) for x in c["amounts"]]
        for eps in (F(0), F(1, 10 ** 18), -F(1, 10 ** 18)):
            out.append([E.to_amount("dec", x + (eps if x >= 0 else -eps)) for x in base])
    return out


def kani_f64(report, tier):
    pre = G.PRELUDE + "".join(G.tables(q, "f64") for q in catalogue.CATALOGUE)
    pre += "use quantities::{ConversionTable, Converter};\n"
    kc = KaniCrate("c18", "f64", extra_src=pre)
    path = {q.name: G.qpath(q) + q.name for q in catalogue.CATALOGUE}
    path["AmountT"] = "AmountT"
    for q in catalogue.CATALOGUE:
        if q.ref is None:
            continue
        T_ = q.name.upper()
        kc.add(Harness("like_" + q.name.lower(), """
        let a: f64 = kani::any();
        let b: f64 = kani::any();
        let i: usize = kani::any();
        let j: usize = kani::any();
        kani::assume(i < %(T)s_N && j < %(T)s_N);
        let x = <%(Q)s as Quantity>::new(a, %(T)s_IDENTS[i]);
        let y = <%(Q)s as Quantity>::new(b, %(T)s_IDENTS[j]);
        let _c = x.convert(%(T)s_IDENTS[j]);
        let _e = x.equiv_amount(%(T)s_IDENTS[j]);
        let _b1 = x == y;
        let _b2 = x < y;
        let _b3 = x >= y;
        let _o = PartialOrd::partial_cmp(&x, &y);
        let _s = x + y;
        let _d = x - y;
        let _r = x / y;
        let _k1 = b * x;
        let _k2 = x * b;
        let _k3 = x / b;
        let _f = <%(Q)s as HasRefUnit>::_fit(a);
        kani::cover!(a.is_nan() && b.is_infinite(), "NaN and infinity reach the end");
        kani::cover!(a == 0.0 && b == 0.0 && i != j, "zero divided by zero in different units reaches the end");
        """ % {"T": T_, "Q": path[q.name]}, unwind=len(q.units) + 2, key="f64 %s like-quantity operations total" % q.name,
                       sample={"harness": "like_" + q.name.lower(), "symbolic": "a, b: any f64 bit pattern; unit indices i, j",
                               "asserts": "no panic in convert, equiv_amount, ==, <, >=, partial_cmp, +, -, /, k*q, q*k, q/k, _fit"}))
    for (a_, op, b_, r_) in catalogue.operator_instances():
        sym = "*" if op == "mul" else "/"
        def ux(q, idx):
            return "ONE" if q == "AmountT" else "%s_IDENTS[%s]" % (q.upper(), idx)
        def bx(q, idx):
            return "true" if q == "AmountT" else "%s < %s_N" % (idx, q.upper())
        nmax = max(len(catalogue.by_name(x).units) if x != "AmountT" else 1 for x in (a_, b_, r_))
        kc.add(Harness("op_%s_%s_%s" % (a_.lower(), op, b_.lower()), """
        let a: f64 = kani::any();
        let b: f64 = kani::any();
        let i: usize = kani::any();
        let j: usize = kani::any();
        kani::assume(%(bi)s && %(bj)s);
        let x = <%(A)s as Quantity>::new(a, %(ui)s);
        let y = <%(B)s as Quantity>::new(b, %(uj)s);
        let r1: %(R)s = x %(sym)s y;
        let r2: %(R)s = &x %(sym)s y;
        let r3: %(R)s = x %(sym)s &y;
        let r4: %(R)s = &x %(sym)s &y;
        kani::cover!(a.is_nan(), "NaN reaches the end");
        kani::cover!(a == 0.0 && b == 0.0, "zero operands reach the end");
        """ % {"A": path[a_], "B": path[b_], "R": path[r_], "ui": ux(a_, "i"), "uj": ux(b_, "j"), "bi": bx(a_, "i"), "bj": bx(b_, "j"), "sym": sym},
                       unwind=nmax + 2, key="f64 %s %s %s total (4 operand forms)" % (a_, op, b_)))
    kc.add(Harness("rates", """
        let ta: f64 = kani::any();
        let pm: f64 = kani::any();
        let v: f64 = kani::any();
        let i: usize = kani::any();
        let j: usize = kani::any();
        let k: usize = kani::any();
        kani::assume(i < LENGTH_N && j < DURATION_N && k < DURATION_N);
        let r = Rate::<quantities::length::Length, quantities::duration::Duration>::new(ta, LENGTH_IDENTS[i], pm, DURATION_IDENTS[j]);
        let d = <quantities::duration::Duration as Quantity>::new(v, DURATION_IDENTS[k]);
        let _l1 = r * d;
        let _l2 = d * r;
        let l = <quantities::length::Length as Quantity>::new(v, LENGTH_IDENTS[i]);
        let _d1 = l / r;
        let _d2 = l * r.reciprocal();
        kani::cover!(pm == 0.0 && ta.is_nan(), "zero per-multiple reaches the end");
    """, unwind=15, key="f64 rate operations total"))
    kc.add(Harness("temperature_table", """
        let a: f64 = kani::any();
        let i: usize = kani::any();
        let j: usize = kani::any();
        kani::assume(i < 3 && j < 3);
        let t = <quantities::temperature::Temperature as Quantity>::new(a, TEMPERATURE_IDENTS[i]);
        let r = quantities::temperature::TEMPERATURE_CONVERTER.convert(&t, TEMPERATURE_IDENTS[j]);
        assert!(r.is_some());
        kani::cover!(a.is_nan(), "NaN");
    """, unwind=8, key="f64 temperature table total"))
    kc.add(Harness("canary_must_fail", """
        let a: f64 = kani::any();
        let i: usize = kani::any();
        kani::assume(i < 3);
        let x = <quantities::temperature::Temperature as Quantity>::new(a, TEMPERATURE_IDENTS[i]);
        let y = <quantities::temperature::Temperature as Quantity>::new(a, TEMPERATURE_IDENTS[0]);
        let _s = x + y;
    """, expect="fail", unwind=5, key="canary", symbolic=False))
    report.bounds["kani_f64"] = "every f64 bit pattern for all amounts, every unit tuple by symbolic indices: 13 types x 13 like-quantity operations, 34 derived operators x 4 operand forms, Rate<Length,Duration> operations, the temperature table"
    kc.run(report, timeout=(600 if tier == "quick" else 3000))
    confirm_failures(report)


def run(report, tier):
    E.setup_report(report, "C18")
    report.trusted += ["Kani 0.68 / CBMC 6.11: Rust panics (unwrap, unreachable, bounds, explicit panic!) as failing checks; --no-overflow-checks (IEEE results such as inf*0 are not errors)"]
    report.assumptions += ["decimal precondition as stated in the property, read as: every operand in its own, the reference and the smallest unit, the result in reference and smallest unit, "
                           "the scale product/ratio, and a divisor in the dividend's unit are 0 (where allowed) or in [1e-15, 1e17]",
                           "fpdec panics iff the divisor is zero or a result is not representable; |exact| < 1e20 is used as the (conservative) representability bound"]
    import concurrent.futures as cf
    frontend.dump_repo_parallel(["dec"])
    pool = mpool.Pool(jobs=max(2, common.ncpu() - 6))
    try:
        with cf.ThreadPoolExecutor(max_workers=1) as ex:
            fut = ex.submit(kani_f64, report, tier)
            desc = {"dec": pool.describe("dec")}
            d = desc["dec"]
            tasks = []
            for q in d["qty"]:
                if d["has_ref"][q] and q != "Decimal":
                    for ua in d["units"][q]:
                        tasks.append(("dec", "like", q, ua))
            for inst in d["operators"]:
                for ua in d["units"][inst[0]]:
                    tasks.append(("dec", "derived", inst, ua))
            for tq, pq in [("Length", "Duration"), ("Mass", "Length")]:
                for tu in d["units"][tq]:
                    tasks.append(("dec", "rate", (tq, pq), tu))
            E.shuffle(tasks)
            report.bounds["decimal"] = "all reals satisfying the precondition; every ordered unit pair of every type with reference unit (convert, compare, +, -, /), every operand unit pair of the 34 derived operators, every unit triple of rate*q and q/rate for Rate<Length,Duration> and Rate<Mass,Length>"
            cands = pool.run(report, task, tasks)
            pool.cross_check(report)
            E.native_confirm(report, "C18", cands, desc, oracle, probes=variants, max_groups=60, by_role=True, per_group=12)
            fut.result()
    finally:
        pool.close()
