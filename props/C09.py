"""C09 Unit registry is complete, ordered and invertible -- Engine E1 (Kani).

Per quantity type (14 catalogue types in f64 and decimal, 4 astronomical types):
  order     iter()/iter_units() yield exactly the declared units, each once, in the
            required order (symbolic position k)
  consts    every UPPER_SNAKE constant equals its variant (symbolic index)
  lookup    from_symbol / unit_from_symbol of each declared symbol return the first
            unit in iteration order with that symbol (symbolic index); for EVERY
            UTF-8 string of <= n bytes the result is Some(u) with u.symbol()==s or
            None with no unit having that symbol
  scale     from_scale / unit_from_scale for EVERY f64 x: the first unit with that scale, else None
  refunit   exactly one unit is the reference unit, it has scale one; as_qty is one of itself
"""
import os
import re

from engine import common
from engine.kani.runner import KaniCrate, Harness, confirm_failures
from spec import catalogue
from props import kanigen as G
from props import synthdefs


def first_idx(order):
    out = []
    for u in order:
        out.append([v.symbol for v in order].index(u.symbol))
    return out


def add_type(kc, q, backend, pfx, nbytes, with_strings, with_scale):
    T = pfx + q.name.upper()
    p = G.qpath(q)
    Q, U = p + q.name, p + q.unit_type
    n = len(q.units)
    order = G.expected_order(q)
    maxsym = max(len(u.symbol.encode()) for u in q.units) + 2
    tag = ("a" if pfx else "") + q.name.lower()
    keyp = "%s %s::%s" % (backend, q.crate, q.name)
    one = "1.0f64" if backend == "f64" else "Decimal::ONE"
    scale_mono = ""
    if q.ref is not None and backend == "f64":
        scale_mono = "if j > 0 { assert!(prev <= u.scale(), \"non-decreasing scale order\"); } prev = u.scale();"
    kc.add(Harness("order_" + tag, """
        let k: usize = kani::any();
        kani::assume(k < %(T)s_N);
        let mut count = 0usize;
        let mut prev = %(zero)s;
        for (j, u) in <%(U)s as Unit>::iter().enumerate() {
            if j == k { assert!(u == %(T)s_ORDER[k], "k-th iterated unit is the k-th unit of the required order"); }
            %(mono)s
            count += 1;
        }
        assert!(count == %(T)s_N, "every declared unit exactly once");
        let mut count2 = 0usize;
        for (j, u) in <%(Q)s as Quantity>::iter_units().enumerate() {
            if j == k { assert!(u == %(T)s_ORDER[k], "iter_units agrees with iter"); }
            count2 += 1;
        }
        assert!(count2 == %(T)s_N);
        kani::cover!(k == %(T)s_N - 1, "last position reachable");
    """ % {"T": T, "U": U, "Q": Q, "mono": scale_mono, "zero": "0.0f64" if backend == "f64" else "0.0f64"}, unwind=n + 2, key=keyp + " order",
                   sample={"harness": "order_" + tag, "symbolic": "position k < %d" % n, "asserts": "iter()[k] == required order[k], count == %d, scales non-decreasing" % n}))
    kc.add(Harness("consts_" + tag, """
        let i: usize = kani::any();
        kani::assume(i < %(T)s_N);
        assert!(%(T)s_CONSTS[i] == %(T)s_IDENTS[i], "constant is bound to its variant");
        let q = %(T)s_IDENTS[i].as_qty();
        assert!(q.unit() == %(T)s_IDENTS[i], "unit taken as quantity keeps the unit");
        assert!(q.amount() == %(one)s, "unit taken as quantity is one of itself");
        kani::cover!(i == %(T)s_N - 1, "last index");
    """ % {"T": T, "one": one}, unwind=n + 2, key=keyp + " consts/as_qty"))
    fi = first_idx(order)
    kc.add(Harness("lookup_declared_" + tag, """
        const FIRST: [usize; %(n)d] = [%(fi)s];
        let i: usize = kani::any();
        kani::assume(i < %(T)s_N);
        let s = %(T)s_ORDER_SYMS[i];
        assert!(<%(U)s as Unit>::from_symbol(s) == Some(%(T)s_ORDER[FIRST[i]]), "lookup by symbol returns the first unit with that symbol");
        assert!(<%(Q)s as Quantity>::unit_from_symbol(s) == Some(%(T)s_ORDER[FIRST[i]]), "unit_from_symbol agrees");
        kani::cover!(i == %(T)s_N - 1, "last index");
    """ % {"T": T, "U": U, "Q": Q, "n": n, "fi": ", ".join(map(str, fi))}, unwind=max(n, maxsym) + 2, key=keyp + " lookup declared symbols"))
    # concrete witnesses for declared symbols outside ASCII (at most four per type): the harness above selects the symbol by a
    # symbolic index, which CBMC may not finish when the lookup is generated as a `match` on literals; these finish in seconds
    nonascii = [k for k, u in enumerate(order) if any(ord(ch) > 127 for ch in u.symbol)][:4]
    if nonascii:
        body = ""
        for k in nonascii:
            body += ('        assert!(<%(U)s as Unit>::from_symbol(%(T)s_ORDER_SYMS[%(k)d]) == Some(%(T)s_ORDER[%(f)d]), "a declared non-ASCII symbol finds its unit");\n'
                     '        assert!(<%(Q)s as Quantity>::unit_from_symbol(%(T)s_ORDER_SYMS[%(k)d]) == Some(%(T)s_ORDER[%(f)d]), "unit_from_symbol finds a declared non-ASCII symbol");\n'
                     % {"T": T, "U": U, "Q": Q, "k": k, "f": fi[k]})
        kc.add(Harness("lookup_nonascii_" + tag, body, unwind=max(n, maxsym) + 2, key=keyp + " lookup non-ASCII declared symbols (concrete)", symbolic=False))
    if with_strings:
        kc.add(Harness("lookup_strings_" + tag, """
        let bytes: [u8; %(nb)d] = kani::any();
        let len: usize = kani::any();
        kani::assume(len <= %(nb)d);
        let k: usize = kani::any();
        kani::assume(k < %(T)s_N);
        if let Ok(s) = core::str::from_utf8(&bytes[..len]) {
            let r = <%(U)s as Unit>::from_symbol(s);
            match r {
                Some(u) => assert!(u.symbol() == s, "returned unit has the symbol asked for"),
                None => assert!(%(T)s_ORDER[k].symbol() != s, "no unit with that symbol may exist"),
            }
            %(cov)s
            kani::cover!(r.is_none(), "unknown symbol");
        }
    """ % {"T": T, "U": U, "nb": nbytes, "cov": 'kani::cover!(r.is_some(), "some symbol found");' if any(len(u.symbol.encode()) <= nbytes for u in q.units) else ""}, unwind=max(n, maxsym, nbytes) + 2, key=keyp + " lookup strings<=%d" % nbytes, timeout=(600 if os.environ.get("VERIF_TIER") != "thorough" else 3000),
                       sample={"harness": "lookup_strings_" + tag, "symbolic": "any UTF-8 string of <= %d bytes, any unit k" % nbytes,
                               "asserts": "Some(u) => u.symbol()==s; None => unit k has another symbol"}))
    if q.ref is not None:
        ref_idx = [u.ident for u in q.units].index(q.ref)
        kc.add(Harness("refunit_" + tag, """
        let i: usize = kani::any();
        kani::assume(i < %(T)s_N);
        assert!(%(T)s_IDENTS[i].is_ref_unit() == (i == %(r)d), "exactly the declared reference unit is the reference unit");
        assert!(<%(Q)s as HasRefUnit>::REF_UNIT == <%(U)s as LinearScaledUnit>::REF_UNIT);
        assert!(<%(Q)s as HasRefUnit>::REF_UNIT == %(T)s_IDENTS[%(r)d]);
        assert!(%(T)s_IDENTS[%(r)d].scale() == %(one)s, "reference unit has scale one");
        kani::cover!(i == %(r)d, "reference index");
    """ % {"T": T, "U": U, "Q": Q, "r": ref_idx, "one": one}, unwind=n + 2, key=keyp + " refunit"))
        if with_scale and backend == "f64":
            kc.add(Harness("from_scale_" + tag, """
        let x: f64 = kani::any();
        let k: usize = kani::any();
        kani::assume(k < %(T)s_N);
        let r = <%(U)s as LinearScaledUnit>::from_scale(x);
        let r2 = <%(Q)s as HasRefUnit>::unit_from_scale(x);
        assert!(r == r2, "from_scale and unit_from_scale agree");
        if let Some(u) = r {
            assert!(u.scale() == x, "returned unit has that scale");
            let mut pos = %(T)s_N;
            let mut j = 0;
            while j < %(T)s_N { if pos == %(T)s_N && %(T)s_ORDER[j] == u { pos = j; } j += 1; }
            if %(T)s_ORDER[k].scale() == x { assert!(pos <= k, "first unit in iteration order with that scale"); }
        } else {
            assert!(!(%(T)s_ORDER[k].scale() == x), "a unit with that scale exists but nothing was returned");
        }
        kani::cover!(r.is_some(), "scale found");
        kani::cover!(r.is_none(), "unknown scale");
    """ % {"T": T, "U": U, "Q": Q}, unwind=n + 2, key=keyp + " from_scale any f64",
                           sample={"harness": "from_scale_" + tag, "symbolic": "x: any f64 bit pattern, unit k", "asserts": "first unit with scale == x, else None"}))


def e2_task(t):
    """from_scale / unit_from_scale for a SYMBOLIC amount x in both back-ends (decimal comparisons are exact in T_red):
    Some(u) only if x == scale(u) and x differs from the scale of every earlier unit; None only if x differs from all."""
    import z3
    from engine.mirsmt import driver, theories as T, pool as mpool
    from props import e2common as E
    key, q = t
    w = mpool.world(key)
    be = w.backend
    R = mpool.TaskResult()
    sv = driver.Solver(timeout_ms=30000)
    us = w.units(q)
    sc = {u: w.scale_fr(q, u) for u in us} if w.has_ref(q) else {}
    for callee, label in ((("<%s as LinearScaledUnit>::from_scale" % w.qty[q], "from_scale"), ("<%s as HasRefUnit>::unit_from_scale" % q, "unit_from_scale")) if w.has_ref(q) else ()):
        th = T.TRe64() if be == "f64" else T.TRed()
        run = driver.Run(w, th)
        x = th.var("x")
        outs = run.call(run.state(), callee, [x])
        R.absorb_exec(run.ex)
        pair = "%s %s %s(x)" % (be, q, label)
        seen_none = False
        for o in outs:
            if o.panic:
                R.oblig(pair + " no panic", False, True)
                continue
            v = o.value
            if v.variant == "None":
                seen_none = True
                goal = z3.And([x.term != T.Q(sc[u]) for u in us])
                name = "None"
            else:
                u = v.payload[0].variant
                k = us.index(u)
                goal = z3.And([x.term == T.Q(sc[u])] + [x.term != T.Q(sc[v2]) for v2 in us[:k]])
                name = "Some(%s)" % u
            res, _ = sv.check(th.cons + o.pc + [z3.Not(goal)], keep_sample=True)
            R.oblig("%s -> %s" % (pair, name), res == "unsat", True, {"obligation": "%s -> %s" % (pair, name), "theory": th.name,
                                                                        "goal": "returned only if x equals that unit's scale and no earlier unit's scale; None only if x equals no scale"})
            if res != "unsat":
                R.inconclusive.append("%s -> %s: lookup result not justified (%s)" % (pair, name, res))
        # completeness: every distinct scale is found (concrete call)
        for u in us:
            th2 = T.TRe64() if be == "f64" else T.TRed()
            run2 = driver.Run(w, th2, prune=False)
            o2 = run2.call(run2.state(), callee, [th2.const(w.scale_exact(q, u))])
            first = [v2 for v2 in us if sc[v2] == sc[u]][0]
            ok = len(o2) == 1 and not o2[0].panic and o2[0].value.variant == "Some" and o2[0].value.payload[0].variant == first
            R.oblig("%s %s %s(scale of %s) = first unit with that scale" % (be, q, label, u), ok, False)
            if not ok:
                R.inconclusive.append("%s %s %s(scale of %s): expected Some(%s), got %r" % (be, q, label, u, first, [o.value for o in o2][:1]))
    # ---- symbol lookups on concrete strings through the real lookup code (both back-ends; Kani decides the bounded-string
    #      family on f64 only and may time out when a lookup is rewritten with iterator adaptors over chars)
    from engine.mirsmt.exec import Str, State
    th0 = T.TUf(be)
    run0 = driver.Run(w, th0, prune=False)
    syms = []
    for u in us:
        st0 = run0.state()
        o = run0.call(st0, "<%s as Unit>::symbol" % w.qty[q], [run0.ref(st0, w.unit(q, u))])
        syms.append(o[0].value.s)
    probes_ = [(s_, us[syms.index(s_)]) for s_ in syms] + [(s_ + "x", None) for s_ in syms[:3]] + [("", None) if "" not in syms else ("\u00b5\u03bc", None), (syms[0][:-1] or "?", None if (syms[0][:-1] or "?") not in syms else us[syms.index(syms[0][:-1])])]
    for callee, label in (("<%s as Unit>::from_symbol" % w.qty[q], "from_symbol"), ("<%s as Quantity>::unit_from_symbol" % q, "unit_from_symbol")):
        for s_, want in probes_:
            st0 = run0.state()
            outs = run0.call(st0, callee, [run0.ref(st0, Str(s_))])
            got = None
            ok = len(outs) == 1 and not outs[0].panic
            if ok:
                v = outs[0].value
                got = None if v.variant == "None" else v.payload[0].variant
                ok = got == want
            R.oblig("%s %s %s(%r)" % (be, q, label, s_), ok, False)
            if not ok:
                R.candidates.append(E.cand("C09", "lookup", be, w, "lookup_" + label, [q], [], [], "%s %s %s(%r)" % (be, q, label, s_),
                                           symbol=s_, expected=want, note="the lookup code yields %s" % got))
    R.absorb_exec(run0.ex)
    R.absorb_solver(sv)
    return R


def lookup_oracle(c, out, scales):
    got = out[2:].strip() if out.startswith("L ") else out
    want = "None" if c["expected"] is None else "Some(%s)" % c["expected"]
    return (got != want), "%s(%r) = %s, expected %s" % (c["op"], c["symbol"], got, want)


def e2_part(report, tier):
    from engine.mirsmt import pool as mpool
    from engine.replay import gen as rgen
    from props import e2common as E
    rgen.EXTRA_SRC = synthdefs.SYNTH_RS
    keys = E.dump_worlds(["f64", "dec"], astro=True, fixture=True)
    pool = mpool.Pool(jobs=4)
    try:
        desc = E.describe_worlds(pool, keys)
        tasks = [(keys[label], q) for label in keys for q in desc[label]["qty"] if q not in ("f64", "Decimal")
                 and not (label.startswith("fix") and q not in desc[label].get("own", []))]
        tasks = sorted(set(tasks), key=str)
        cands = pool.run(report, e2_task, tasks)
        E.native_confirm(report, "C09", cands, desc, lookup_oracle, probes=None)
        report.bounds["e2_scale_lookup"] = "from_scale / unit_from_scale for a symbolic amount (any real, comparisons exact) and for every declared scale: all catalogue types in f64 and decimal, astronomical types, synthetic types"
    finally:
        pool.close()


def run(report, tier):
    report.level = "model_checking"
    report.trusted += ["Kani 0.68 MIR->GOTO translation", "CBMC 6.11 + cadical", "spec/catalogue.py for the set of units; /repo's attribute lines only for the order of equal-scale units"]
    nbytes = 2
    pre_f = G.PRELUDE + "".join(G.tables(q, "f64") for q in catalogue.CATALOGUE)
    for q in catalogue.ASTRO:
        pre_f += G.tables(q, "f64").replace("const %s_" % q.name.upper(), "const A%s_" % q.name.upper())
    synth = list(synthdefs.ALL)
    pre_f += synthdefs.SYNTH_RS + "".join(G.tables(q, "f64") for q in synth)
    kf = KaniCrate("c09f", "f64", astro=True, extra_src=pre_f)
    for q in synth:
        add_type(kf, q, "f64", "", nbytes, len(q.units) <= 8, True)
    # symbolic strings cost grows steeply with the number of units (18-unit types: > 15 min at 2 bytes)
    small = {q.name for q in catalogue.CATALOGUE if len(q.units) <= 8}
    string_types = small if tier == "quick" else {q.name for q in catalogue.CATALOGUE if len(q.units) <= 13}
    for q in catalogue.CATALOGUE:
        add_type(kf, q, "f64", "", nbytes, q.name in string_types, True)
    for q in catalogue.ASTRO:
        add_type(kf, q, "f64", "A", nbytes, tier == "thorough", True)
    kf.add(Harness("one_registry", """
        use quantities::One;
        let mut n = 0;
        for u in <One as Unit>::iter() { assert!(u == ONE); n += 1; }
        assert!(n == 1, "the dimensionless amount has exactly one unit");
        assert!(<One as Unit>::from_symbol("") == Some(ONE), "its unit is found by its (empty) symbol");
        assert!(<AmountT as Quantity>::unit_from_symbol("") == Some(ONE));
        assert!(<One as Unit>::from_symbol("One").is_none(), "and by nothing else");
        assert!(<AmountT as Quantity>::unit_from_symbol("1").is_none());
        assert!(<One as LinearScaledUnit>::from_scale(1.0) == Some(ONE));
        let x: f64 = kani::any();
        kani::assume(x != 1.0);
        assert!(<One as LinearScaledUnit>::from_scale(x).is_none());
        assert!(<AmountT as HasRefUnit>::unit_from_scale(x).is_none());
        assert!(ONE.is_ref_unit() && ONE.as_qty() == 1.0);
        kani::cover!(x.is_nan(), "NaN scale");
    """, unwind=6, key="f64 One registry and lookups"))
    kf.add(Harness("canary_must_fail", "        let i: usize = kani::any();\n        kani::assume(i < LENGTH_N);\n        assert!(LENGTH_IDENTS[i].is_ref_unit());\n",
                   expect="fail", unwind=15, key="canary", symbolic=False))
    kd = KaniCrate("c09d", "dec", extra_src="use quantities::Decimal;\n" + G.PRELUDE + synthdefs.SYNTH_RS + "".join(G.tables(q, "dec") for q in catalogue.CATALOGUE + synth))
    for q in synth:
        add_type(kd, q, "dec", "", nbytes, False, False)
    for q in catalogue.CATALOGUE:
        add_type(kd, q, "dec", "", nbytes, False, False)
    import concurrent.futures as cf
    tmo = 480 if tier == "quick" else 3000
    e2_part(report, tier)          # forks its worker pool before the Kani threads start
    with cf.ThreadPoolExecutor(max_workers=2) as ex:
        f1 = ex.submit(kf.run, report, tmo, 12, 7)
        f2 = ex.submit(kd.run, report, tmo, 12, 5)
        f1.result()
        f2.result()
    for kc in (kf, kd):
        if not kc.built:
            missing = re.findall(r"cannot find (?:value|type) `(\w+)`|no variant or associated item named `(\w+)`", kc.build_log)
            names = sorted({a or b for a, b in missing})
            if names:
                report.inconclusive = [m for m in report.inconclusive if kc.name not in m]
                p = common.write_replay("C09", "registry_missing_" + kc.name, {"property": "C09", "missing": names, "rustc": kc.build_log[-4000:],
                                                                                 "how_to_replay": "./check run C09"})
                report.oblig("%s: every declared unit/constant exists" % kc.name, False, False)
                report.violation("registry:missing:" + ",".join(names), "declared units/constants are missing from the generated registry: %s" % names, p)
    report.functions.update(["Unit::iter / Quantity::iter_units (real core::iter)", "Unit::from_symbol", "Quantity::unit_from_symbol", "LinearScaledUnit::from_scale",
                             "HasRefUnit::unit_from_scale", "LinearScaledUnit::is_ref_unit", "Unit::as_qty", "generated VARIANTS / constants"])
    report.bounds.update({"units": "every unit / position of 14 catalogue types (f64 + decimal), 4 astronomical types and 6 synthetic macro-defined types (two single-unit, two without reference unit - one whose name order differs from identifier order -, a 4-unit and a 24-unit type with reference unit, the latter declared out of order with equal-scale units) by symbolic index",
                          "strings": "every UTF-8 string of <= %d bytes for the types with <= %d units, plus every declared symbol of every type" % (nbytes, 8 if tier == "quick" else 13),
                          "scales": "every f64 bit pattern (decimal scale lookup: not covered by E1)"})
    confirm_failures(report)
