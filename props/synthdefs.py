"""Small synthetic quantity definitions expanded by the real macro inside the harness crates."""
from fractions import Fraction as F
from spec.catalogue import QtySpec, U

SYNTH_RS = """
pub mod synth {
    use quantities::prelude::*;

    #[quantity]
    #[unit(Pebble, "pb", "the only unit")]
    /// single-unit quantity
    pub struct Pile {}

    #[quantity]
    #[unit(Gamma_Ray, "ga")]
    #[unit(Alpha, "al", "first by name")]
    #[unit(Beta, "be")]
    /// quantity without reference unit
    pub struct Tri {}

    #[quantity]
    #[unit(Cent_per_Minute, "c/min")]
    #[unit(apple, "ap")]
    #[unit(Cent_Total, "ct")]
    #[unit(Banana, "bn", "second by name")]
    /// no reference unit; name order ('Banana' < 'Cent Total' < 'Cent per Minute' < 'apple') differs from identifier order
    pub struct Tariff {}

    #[quantity]
    #[unit(Flat_pack, "fp")]
    /// single-unit quantity whose unit identifier has two words
    pub struct Stack {}

    #[quantity]
    #[unit(Centibar, "c6", 1000)]
    #[unit(Pieze, "p19", 1000)]
    #[unit(Inch_Mercury, "im22", 3386.39)]
    #[unit(Atmosphere, "a16", 101325)]
    #[unit(Bar, "b8", 100000)]
    #[unit(Technical_Atmosphere, "ta15", 98066.5)]
    #[unit(Foot_Water, "fw23", 2988.98)]
    #[unit(Newton_per_Square_Millimeter, "npsm21", 1000000)]
    #[unit(Megapascal, "m7", MEGA, 1000000)]
    #[unit(Gigapascal, "g20", GIGA, 1000000000)]
    #[unit(Millimeter_Mercury, "mm14", 133.322)]
    #[unit(Joule_per_Cubic_Meter, "jpcm2", 1)]
    #[ref_unit(Pascal, "p0", NONE)]
    #[unit(Pound_per_Square_Inch, "ppsi17", 6894.757)]
    #[unit(Decibar, "d9", 10000)]
    #[unit(Newton_per_Square_Meter, "npsm1", 1)]
    #[unit(Micropascal, "m10", MICRO, 0.000001)]
    #[unit(Barye, "b12", 0.1)]
    #[unit(Millibar, "m4", 100)]
    #[unit(Kip_per_Square_Inch, "kpsi18", 6894757)]
    #[unit(Hectopascal, "h3", HECTO, 100)]
    #[unit(Torr, "t13", 133.322)]
    #[unit(Kilopascal, "k5", KILO, 1000)]
    #[unit(Millipascal, "m11", MILLI, 0.001)]
    /// 24 units declared out of scale order, several sharing a scale (also with the reference unit, one of those declared above it)
    pub struct Pressure {}

    #[quantity]
    #[ref_unit(Coulomb, "C", NONE)]
    #[unit(Attocoulomb, "aC", ATTO, 0.000000000000000001)]
    #[unit(Dozen_Attocoulomb, "daC", 0.000000000000000024)]
    #[unit(Decifemtocoulomb, "dfC", 0.0000000000000001)]
    #[unit(Femtocoulomb, "fC", FEMTO, 0.000000000000001)]
    /// distinct scales that lie closer together than f64::EPSILON
    pub struct Charge {}

    #[quantity]
    #[unit(Degree_Reaumur, "°R")]
    #[unit(Degree_Rankine, "°R", "same symbol as Degree_Reaumur")]
    #[unit(Degree_Delisle, "°De")]
    /// no reference unit; two different units share a symbol
    pub struct Heat {}

    #[quantity]
    #[ref_unit(Quart, "Q", "reference unit without SI prefix")]
    #[unit(Milliquart, "mQ", MILLI, 0.001)]
    #[unit(Dozen_Quart, "dzQ", 12)]
    #[unit(Kiloquart, "kQ", KILO, 1000)]
    /// the reference unit carries no SI prefix although other units do: every unit is eligible for fitting
    pub struct Bucket {}

    #[quantity]
    #[ref_unit(Grain, "gr", NONE, "reference unit")]
    #[unit(Milligrain, "mgr", MILLI, 0.001)]
    #[unit(Micrograin, "μgr", MICRO, 0.000001)]
    #[unit(Scruple, "sc", 20)]
    #[unit(Dram, "dr", 60.)]
    /// small quantity with reference unit; one symbol spelt with the Greek letter mu (U+03BC), not the micro sign
    pub struct Dose {}
}
"""

DOSE = QtySpec("crate", "synth", "Dose", "Grain", [U("Grain", "gr", "NONE", 1), U("Milligrain", "mgr", "MILLI", F(1, 1000)), U("Micrograin", "\u03bcgr", "MICRO", F(1, 10 ** 6)), U("Scruple", "sc", None, 20), U("Dram", "dr", None, 60)])

PILE = QtySpec("crate", "synth", "Pile", None, [U("Pebble", "pb", None, None)])
TRI = QtySpec("crate", "synth", "Tri", None, [U("Gamma_Ray", "ga", None, None), U("Alpha", "al", None, None), U("Beta", "be", None, None)])
TARIFF = QtySpec("crate", "synth", "Tariff", None, [U("Cent_per_Minute", "c/min", None, None), U("apple", "ap", None, None), U("Cent_Total", "ct", None, None), U("Banana", "bn", None, None)])
STACK = QtySpec("crate", "synth", "Stack", None, [U("Flat_pack", "fp", None, None)])
PRESSURE = QtySpec("crate", "synth", "Pressure", "Pascal", [
    U("Pascal", "p0", "NONE", F("1")),
    U("Centibar", "c6", None, F("1000")),
    U("Pieze", "p19", None, F("1000")),
    U("Inch_Mercury", "im22", None, F("338639/100")),
    U("Atmosphere", "a16", None, F("101325")),
    U("Bar", "b8", None, F("100000")),
    U("Technical_Atmosphere", "ta15", None, F("196133/2")),
    U("Foot_Water", "fw23", None, F("149449/50")),
    U("Newton_per_Square_Millimeter", "npsm21", None, F("1000000")),
    U("Megapascal", "m7", "MEGA", F("1000000")),
    U("Gigapascal", "g20", "GIGA", F("1000000000")),
    U("Millimeter_Mercury", "mm14", None, F("66661/500")),
    U("Pound_per_Square_Inch", "ppsi17", None, F("6894757/1000")),
    U("Decibar", "d9", None, F("10000")),
    U("Newton_per_Square_Meter", "npsm1", None, F("1")),
    U("Micropascal", "m10", "MICRO", F("1/1000000")),
    U("Barye", "b12", None, F("1/10")),
    U("Millibar", "m4", None, F("100")),
    U("Kip_per_Square_Inch", "kpsi18", None, F("6894757")),
    U("Hectopascal", "h3", "HECTO", F("100")),
    U("Joule_per_Cubic_Meter", "jpcm2", None, F("1")),
    U("Torr", "t13", None, F("66661/500")),
    U("Kilopascal", "k5", "KILO", F("1000")),
    U("Millipascal", "m11", "MILLI", F("1/1000")),
])
PRESSURE.decl = ['Centibar', 'Pieze', 'Inch_Mercury', 'Atmosphere', 'Bar', 'Technical_Atmosphere', 'Foot_Water', 'Newton_per_Square_Millimeter', 'Megapascal', 'Gigapascal', 'Millimeter_Mercury', 'Joule_per_Cubic_Meter', 'Pascal', 'Pound_per_Square_Inch', 'Decibar', 'Newton_per_Square_Meter', 'Micropascal', 'Barye', 'Millibar', 'Kip_per_Square_Inch', 'Hectopascal', 'Torr', 'Kilopascal', 'Millipascal']
CHARGE = QtySpec("crate", "synth", "Charge", "Coulomb", [U("Coulomb", "C", "NONE", 1), U("Attocoulomb", "aC", "ATTO", F(1, 10 ** 18)),
                                                         U("Dozen_Attocoulomb", "daC", None, F(24, 10 ** 18)), U("Decifemtocoulomb", "dfC", None, F(1, 10 ** 16)), U("Femtocoulomb", "fC", "FEMTO", F(1, 10 ** 15))])
BUCKET = QtySpec("crate", "synth", "Bucket", "Quart", [U("Quart", "Q", None, 1), U("Milliquart", "mQ", "MILLI", F(1, 1000)), U("Dozen_Quart", "dzQ", None, 12), U("Kiloquart", "kQ", "KILO", 1000)])
HEAT = QtySpec("crate", "synth", "Heat", None, [U("Degree_Reaumur", "°R", None, None), U("Degree_Rankine", "°R", None, None), U("Degree_Delisle", "°De", None, None)])
ALL = [PILE, STACK, TRI, TARIFF, HEAT, DOSE, CHARGE, BUCKET, PRESSURE]
