"""Small synthetic quantity definitions expanded by the real macro inside the harness crates."""
from fractions import Fraction as F
from spec.catalogue import QtySpec, U

SYNTH_RS = """
pub mod synth {
    use quantities::prelude::*;

    #[quantity]
    #[unit(Pebble, "pb", "the only unit")]
    /// single-unit quantity
    pub struct Pile {}

    #[quantity]
    #[unit(Gamma_Ray, "ga")]
    #[unit(Alpha, "al", "first by name")]
    #[unit(Beta, "be")]
    /// quantity without reference unit
    pub struct Tri {}
}
"""

PILE = QtySpec("crate", "synth", "Pile", None, [U("Pebble", "pb", None, None)])
TRI = QtySpec("crate", "synth", "Tri", None, [U("Gamma_Ray", "ga", None, None), U("Alpha", "al", None, None), U("Beta", "be", None, None)])
