"""Small synthetic quantity definitions expanded by the real macro inside the harness crates."""
from fractions import Fraction as F
from spec.catalogue import QtySpec, U

SYNTH_RS = """
pub mod synth {
    use quantities::prelude::*;

    #[quantity]
    #[unit(Pebble, "pb", "the only unit")]
    /// single-unit quantity
    pub struct Pile {}

    #[quantity]
    #[unit(Gamma_Ray, "ga")]
    #[unit(Alpha, "al", "first by name")]
    #[unit(Beta, "be")]
    /// quantity without reference unit
    pub struct Tri {}

    #[quantity]
    #[unit(Cent_per_Minute, "c/min")]
    #[unit(apple, "ap")]
    #[unit(Cent_Total, "ct")]
    #[unit(Banana, "bn", "second by name")]
    /// no reference unit; name order ('Banana' < 'Cent Total' < 'Cent per Minute' < 'apple') differs from identifier order
    pub struct Tariff {}

    #[quantity]
    #[ref_unit(Grain, "gr", NONE, "reference unit")]
    #[unit(Milligrain, "mgr", MILLI, 0.001)]
    #[unit(Scruple, "sc", 20)]
    #[unit(Dram, "dr", 60.)]
    /// small quantity with reference unit
    pub struct Dose {}
}
"""

DOSE = QtySpec("crate", "synth", "Dose", "Grain", [U("Grain", "gr", "NONE", 1), U("Milligrain", "mgr", "MILLI", F(1, 1000)), U("Scruple", "sc", None, 20), U("Dram", "dr", None, 60)])

PILE = QtySpec("crate", "synth", "Pile", None, [U("Pebble", "pb", None, None)])
TRI = QtySpec("crate", "synth", "Tri", None, [U("Gamma_Ray", "ga", None, None), U("Alpha", "al", None, None), U("Beta", "be", None, None)])
TARIFF = QtySpec("crate", "synth", "Tariff", None, [U("Cent_per_Minute", "c/min", None, None), U("apple", "ap", None, None), U("Cent_Total", "ct", None, None), U("Banana", "bn", None, None)])
